(** LayoutBucketProofs: the independent reader Layout.v decodes what the code's writer (Node.write, Node.bucket_write,
    Node.bucket_header_value) produces for leaf pages whose elements carry flags: plain values (even flags), inline
    buckets (odd flags, root 0, the root leaf serialised inside the value) and paged buckets (odd flags, root <> 0). *)
From Bbolt Require Import Base BaseProofs Consts Spec SpecProofs Fnv Layout LayoutEnc LayoutProofs LayoutPageProofs Node NodeProofs.
From Coq Require Import ZifyN ZifyNat ZifyBool.

(** * the decoder's leaf branch, named *)
(** the element list the decoder builds for a leaf page: (flags, absolute key position, ksize, vsize) *)
Definition leaf_elems (rd : N -> N) (base count : N) : list (N * N * N * N) :=
  map (fun i =>
         let e := base + 16 + 16 * i in
         let efl := u32 rd e in let pos := u32 rd (e + 4) in let ks := u32 rd (e + 8) in let vs := u32 rd (e + 12) in
         (efl, e + pos, ks, vs)) (idxs count).

(** one decoded element: key, entry, pages below it, order flag, bounds flag *)
Definition eres := (bytes * entry * list (N * N * N) * bool * bool)%type.

(** what the decoder does with one leaf element (fuel [f] = the fuel left for sub-buckets) *)
Definition elem_dec (rd : N -> N) (ps : N) (f : nat) (x : N * N * N * N) : option eres :=
  let '(efl, kp, ks, vs) := x in
  let k := rbytes rd (N.to_nat ks) kp in
  let vb := kp + ks in
  if N.odd efl then
    let root := u64 rd vb in let sq := u64 rd (vb + 8) in
    match (if root =? 0 then dec_page rd ps f (vb + 16) (vb + vs) true None None
           else dec_page rd ps f (root * ps) (root * ps + (u32 rd (root * ps + 12) + 1) * ps) false None None) with
    | None => None
    | Some d => Some (k, Sub sq (r_ents d), r_pages d, r_order d, r_bounds d && (16 <=? vs))
    end
  else Some (k, Val (rbytes rd (N.to_nat vs) vb), [], true, true).

(** the order test of one page: keys strictly increasing, first key >= lo, all keys < hi *)
Definition key_order (lo hi : option bytes) (keys : list bytes) : bool :=
  strictly_inc keys && match keys with [] => true | k :: _ => opt_le lo k end && forallb (fun k => opt_lt k hi) keys.

(** [key_order] is true exactly when the keys are strictly increasing, the first is >= lo and all are < hi *)
Lemma key_order_true_iff lo hi keys :
  key_order lo hi keys = true <->
  strictly_inc keys = true /\ match keys with [] => True | k :: _ => opt_le lo k = true end
  /\ Forall (fun k => opt_lt k hi = true) keys.
Proof.
  unfold key_order. rewrite !andb_true_iff, forallb_forall, Forall_forall.
  destruct keys as [|k r]; intuition.
Qed.

(** the reader's [strictly_inc] and the node model's [keys_sorted] are the same test *)
Lemma strictly_inc_keys_sorted ks : strictly_inc ks = keys_sorted ks.
Proof.
  induction ks as [|k r IH]; [reflexivity|]. cbn [strictly_inc keys_sorted]. destruct r as [|k' r']; [reflexivity|].
  rewrite IH. reflexivity.
Qed.

(** with no bounds (the root of a bucket) the order test is just sortedness *)
Lemma key_order_none keys : key_order None None keys = keys_sorted keys.
Proof.
  unfold key_order. rewrite forallb_opt_lt_none, andb_true_r, strictly_inc_keys_sorted.
  destruct keys; cbn [opt_le]; now rewrite andb_true_r.
Qed.

Lemma dec_page_leaf_unfold rd ps f base limit inline lo hi :
  u16 rd (base + 8) = leaf_page_flag ->
  dec_page rd ps (S f) base limit inline lo hi =
  let count := u16 rd (base + 10) in
  let elems := leaf_elems rd base count in
  let keys := map (fun x : N * N * N * N => let '(efl, kp, ks, vs) := x in rbytes rd (N.to_nat ks) kp) elems in
  match mapM (elem_dec rd ps f) elems with
  | None => None
  | Some rs => Some {| r_ents := map (fun r : eres => let '(k, e, _, _, _) := r in (k, e)) rs;
                       r_pages := (if inline then [] else [(u64 rd base, u32 rd (base + 12), leaf_page_flag)])
                                  ++ flat_map (fun r : eres => let '(_, _, pg, _, _) := r in pg) rs;
                       r_order := key_order lo hi keys && forallb (fun r : eres => let '(_, _, _, o, _) := r in o) rs;
                       r_bounds := (base + 16 + 16 * count <=? limit)
                                   && forallb (fun x : N * N * N * N => let '(efl, kp, ks, vs) := x in kp + ks + vs <=? limit) elems
                                   && forallb (fun r : eres => let '(_, _, _, _, b) := r in b) rs |}
  end.
Proof.
  intros H. cbn [dec_page]. rewrite H. change (leaf_page_flag =? leaf_page_flag) with true. cbv iota. reflexivity.
Qed.

(** * element headers written by node.write, flags included *)
(** what the reader should see: (flags, absolute key position, ksize, vsize) *)
Fixpoint elems_spec (D0 doff : N) (l : list inode) : list (N * N * N * N) :=
  match l with [] => [] | x :: r =>
    (i_flags x, D0 + doff, len (i_key x), len (i_val x)) :: elems_spec D0 (doff + len (i_key x) + len (i_val x)) r end.

Lemma elems_read l : forall a doff post,
  16 * N.of_nat (length l) + doff + data_total l < 2^32 ->
  Forall (fun x => i_flags x < 2^32) l ->
  let rd := rd_of (a ++ enc_elems true doff l ++ post) in
  map (fun i => (u32 rd (N.of_nat (length a) + 16 * i),
                 N.of_nat (length a) + 16 * i + u32 rd (N.of_nat (length a) + 16 * i + 4),
                 u32 rd (N.of_nat (length a) + 16 * i + 8),
                 u32 rd (N.of_nat (length a) + 16 * i + 12))) (run_nat 0 (length l))
  = elems_spec (N.of_nat (length a) + 16 * N.of_nat (length l)) doff l.
Proof.
  induction l as [|x r IH]; intros a doff post Hb Hfl; [reflexivity|].
  inversion Hfl as [|? ? Hx Hr]; subst.
  cbv zeta. cbn [length run_nat map elems_spec enc_elems]. cbn [data_total length] in Hb.
  rewrite <- !app_assoc.
  set (pos := 16 * N.of_nat (S (length r)) + doff).
  set (doff' := doff + len (i_key x) + len (i_val x)).
  destruct (four_u32 a (i_flags x) pos (len (i_key x)) (len (i_val x)) (enc_elems true doff' r ++ post)) as (E1 & E2 & E3 & E4);
    try (subst pos; lia).
  f_equal.
  - rewrite N.mul_0_r, N.add_0_r. rewrite E1, E2, E3, E4. subst pos. rewrite N.add_assoc. reflexivity.
  - rewrite map_run_nat_succ.
    set (a' := a ++ enc_le 4 (i_flags x) ++ enc_le 4 pos ++ enc_le 4 (len (i_key x)) ++ enc_le 4 (len (i_val x))).
    assert (La : N.of_nat (length a') = N.of_nat (length a) + 16).
    { unfold a'. rewrite !app_length, !enc_le_length. lia. }
    replace (N.of_nat (length a) + 16 * N.of_nat (S (length r))) with (N.of_nat (length a') + 16 * N.of_nat (length r)) by lia.
    etransitivity; [| apply (IH a' doff' post); [subst doff'; lia | exact Hr]].
    cbv zeta.
    replace (a' ++ enc_elems true doff' r ++ post)
      with (a ++ enc_le 4 (i_flags x) ++ enc_le 4 pos ++ enc_le 4 (len (i_key x)) ++ enc_le 4 (len (i_val x)) ++ enc_elems true doff' r ++ post)
      by (unfold a'; rewrite <- !app_assoc; reflexivity).
    apply map_ext. intros i. rewrite La.
    replace (N.of_nat (length a) + 16 * (i + 1)) with (N.of_nat (length a) + 16 + 16 * i) by lia.
    reflexivity.
Qed.

(** keys and the bounds test over the written data area *)
Lemma elems_data_read l : forall rd a doff D0 post limit,
  rd = rd_of (a ++ enc_data l ++ post) ->
  D0 + doff = N.of_nat (length a) ->
  N.of_nat (length a) + data_total l <= limit ->
  map (fun x : N * N * N * N => let '(efl, kp, ks, vs) := x in rbytes rd (N.to_nat ks) kp) (elems_spec D0 doff l) = keys_of l
  /\ forallb (fun x : N * N * N * N => let '(efl, kp, ks, vs) := x in kp + ks + vs <=? limit) (elems_spec D0 doff l) = true.
Proof.
  induction l as [|x r IH]; intros rd a doff D0 post limit Hrd HD Hl; [split; reflexivity|].
  cbn [elems_spec map forallb keys_of data_total] in *.
  assert (Ek : rbytes rd (N.to_nat (len (i_key x))) (D0 + doff) = i_key x).
  { rewrite Hrd, HD. unfold len, enc_data. rewrite Nat2N.id. cbn [flat_map]. rewrite <- !app_assoc. apply rbytes_app. }
  destruct (IH rd (a ++ i_key x ++ i_val x) (doff + len (i_key x) + len (i_val x)) D0 post limit) as (I1 & I2).
  - rewrite Hrd. unfold enc_data. cbn [flat_map]. now rewrite <- !app_assoc.
  - rewrite !app_length. unfold len. lia.
  - rewrite !app_length. unfold len in *. lia.
  - rewrite I1, I2, Ek. split; [reflexivity|].
    rewrite andb_true_r. apply N.leb_le. unfold len in *. lia.
Qed.

Lemma data_total_app l1 l2 : data_total (l1 ++ l2) = data_total l1 + data_total l2.
Proof. induction l1 as [|x r IH]; cbn [app data_total]; [reflexivity | rewrite IH; lia]. Qed.

Lemma enc_data_app l1 l2 : enc_data (l1 ++ l2) = enc_data l1 ++ enc_data l2.
Proof. unfold enc_data. apply flat_map_app. Qed.

(** the per-element decode, positionally: every element is decoded at the place the writer put its key *)
Lemma mapM_elems {B} (G : N * N * N * N -> option B) (P : inode -> B -> Prop) (D0 : N) l : forall doff rs,
  Forall2 P l rs ->
  (forall l1 x l2 r, l = l1 ++ x :: l2 -> P x r ->
     G (i_flags x, D0 + doff + data_total l1, len (i_key x), len (i_val x)) = Some r) ->
  mapM G (elems_spec D0 doff l) = Some rs.
Proof.
  induction l as [|x l IH]; intros doff rs HF HG; inversion HF as [|? r ? rs' Hx Hr]; subst; [reflexivity|].
  cbn [elems_spec mapM].
  pose proof (HG [] x l r eq_refl Hx) as H0. cbn [data_total] in H0. rewrite N.add_0_r in H0. rewrite H0.
  rewrite (IH (doff + len (i_key x) + len (i_val x)) rs' Hr); [reflexivity|].
  intros l1 y l2 r' E Hy. rewrite <- (HG (x :: l1) y l2 r'); [| now rewrite E | exact Hy].
  cbn [data_total]. f_equal. f_equal. f_equal. f_equal. lia.
Qed.

(** * the generic leaf theorem: a leaf written by node.write, each element decoded at its position *)
Section LeafGen.
  Variables (ps : N) (f : nat) (n : node) (pg ov : N) (img pre post : list N) (limit : N).
  Hypothesis Hleaf : n_leaf n = true.
  Hypothesis Hpg : pg < 2^64.
  Hypothesis Hov : ov < 2^32.
  Hypothesis Hsize : size n < 2^32.
  Hypothesis Hwrite : write n pg ov = Ok img.

  Let rd := rd_of (pre ++ img ++ post).
  Let b := N.of_nat (length pre).
  Let l := n_inodes n.
  Let c := N.of_nat (length l).
  Let hdr := enc_page_header pg leaf_page_flag c ov.
  (** offset of the data area *)
  Let D0 := b + 16 + 16 * c.

  Lemma lg_img : img = hdr ++ enc_elems true 0 l ++ enc_data l.
  Proof. pose proof (write_ok_inv _ _ _ _ Hwrite) as H. rewrite Hleaf in H. exact H. Qed.

  Lemma lg_count : c < 65535.
  Proof.
    revert Hwrite. unfold write. cbv zeta. fold l. fold c.
    destruct (N.leb_spec 65535 c); [discriminate | lia].
  Qed.

  Lemma lg_total : 16 + 16 * c + data_total l < 2^32.
  Proof. unfold size in Hsize. rewrite size_of_total in Hsize. exact Hsize. Qed.

  Lemma lg_file : pre ++ img ++ post = pre ++ hdr ++ (enc_elems true 0 l ++ enc_data l ++ post).
  Proof. rewrite lg_img, <- !app_assoc. reflexivity. Qed.

  Lemma lg_id : u64 rd b = pg.
  Proof. unfold rd. rewrite lg_file. apply header_id. exact Hpg. Qed.
  Lemma lg_fl : u16 rd (b + 8) = leaf_page_flag.
  Proof. unfold rd. rewrite lg_file. apply header_flags. reflexivity. Qed.
  Lemma lg_cnt : u16 rd (b + 10) = c.
  Proof. unfold rd. rewrite lg_file. apply header_count. pose proof lg_count. lia. Qed.
  Lemma lg_ovf : u32 rd (b + 12) = ov.
  Proof. unfold rd. rewrite lg_file. apply header_overflow. exact Hov. Qed.

  Lemma lg_D0 : N.of_nat (length (pre ++ hdr ++ enc_elems true 0 l)) = D0.
  Proof.
    rewrite !app_length, enc_elems_length. unfold hdr. rewrite enc_page_header_length. unfold D0, b, c. lia.
  Qed.

  (** where one element lives: the file splits around its key and its value *)
  Lemma lg_elem_at l1 x l2 : l = l1 ++ x :: l2 ->
    let kp := D0 + 0 + data_total l1 in
    exists A B, pre ++ img ++ post = A ++ i_key x ++ i_val x ++ B
                /\ N.of_nat (length A) = kp
                /\ kp + len (i_key x) + len (i_val x) <= b + size n
                /\ len (i_key x) + len (i_val x) < 2^32.
  Proof.
    intros E kp.
    exists (pre ++ hdr ++ enc_elems true 0 l ++ enc_data l1), (enc_data l2 ++ post).
    pose proof lg_total as T.
    assert (DT : data_total l = data_total l1 + (len (i_key x) + len (i_val x) + data_total l2)).
    { rewrite E, data_total_app. reflexivity. }
    split; [|split; [|split]].
    - assert (ED : enc_data l = enc_data l1 ++ i_key x ++ i_val x ++ enc_data l2).
      { rewrite E, enc_data_app. unfold enc_data. cbn [flat_map]. rewrite <- !app_assoc. reflexivity. }
      rewrite lg_file, ED, <- !app_assoc. reflexivity.
    - replace (pre ++ hdr ++ enc_elems true 0 l ++ enc_data l1) with ((pre ++ hdr ++ enc_elems true 0 l) ++ enc_data l1)
        by (rewrite <- !app_assoc; reflexivity).
      rewrite app_length, Nat2N.inj_add, lg_D0, enc_data_length. subst kp. lia.
    - unfold size. rewrite size_of_total. fold l. fold c. subst kp. unfold D0. lia.
    - lia.
  Qed.

  (** a plain element (even flags) decodes to its key and value *)
  Lemma lg_plain l1 x l2 : l = l1 ++ x :: l2 -> N.odd (i_flags x) = false ->
    elem_dec rd ps f (i_flags x, D0 + 0 + data_total l1, len (i_key x), len (i_val x))
    = Some (i_key x, Val (i_val x), [], true, true).
  Proof.
    intros E Hev. destruct (lg_elem_at l1 x l2 E) as (A & B & EF & LA & _ & _). cbv zeta in LA.
    unfold elem_dec. rewrite Hev.
    assert (Ek : rbytes rd (N.to_nat (len (i_key x))) (D0 + 0 + data_total l1) = i_key x).
    { unfold rd. rewrite EF, <- LA. unfold len. rewrite Nat2N.id. apply rbytes_app. }
    assert (Ev : rbytes rd (N.to_nat (len (i_val x))) (D0 + 0 + data_total l1 + len (i_key x)) = i_val x).
    { unfold rd. rewrite EF, <- LA. unfold len at 1. rewrite Nat2N.id. apply rbytes_at. reflexivity. }
    rewrite Ek, Ev. reflexivity.
  Qed.

  Hypothesis Hflags : Forall (fun x => i_flags x < 2^32) (n_inodes n).

  Lemma lg_elems : leaf_elems rd b c = elems_spec D0 0 l.
  Proof.
    unfold leaf_elems. cbv zeta. unfold c. rewrite idxs_of_nat. fold c.
    assert (Lh : N.of_nat (length (pre ++ hdr)) = b + 16).
    { unfold hdr. rewrite app_length, enc_page_header_length. unfold b. lia. }
    pose proof (elems_read l (pre ++ hdr) 0 (enc_data l ++ post)) as R. cbv zeta in R.
    replace ((pre ++ hdr) ++ enc_elems true 0 l ++ enc_data l ++ post) with (pre ++ img ++ post) in R
      by (rewrite lg_file, <- !app_assoc; reflexivity).
    fold rd in R. rewrite Lh in R. fold c in R. apply R; [pose proof lg_total; lia | exact Hflags].
  Qed.

  Hypothesis Hlimit : N.of_nat (length pre) + size n <= limit.

  Lemma lg_keys_bounds :
    map (fun x : N * N * N * N => let '(efl, kp, ks, vs) := x in rbytes rd (N.to_nat ks) kp) (elems_spec D0 0 l) = keys_of l
    /\ forallb (fun x : N * N * N * N => let '(efl, kp, ks, vs) := x in kp + ks + vs <=? limit) (elems_spec D0 0 l) = true.
  Proof.
    apply (elems_data_read l rd (pre ++ hdr ++ enc_elems true 0 l) 0 D0 post limit).
    - unfold rd. rewrite lg_file, <- !app_assoc. reflexivity.
    - rewrite lg_D0. lia.
    - rewrite lg_D0. unfold D0. unfold size in Hlimit. rewrite size_of_total in Hlimit. fold l c in Hlimit. fold b in Hlimit. lia.
  Qed.

  (** the generic statement: [P x r] describes the decoded result [r] of element [x]; it must be what the decoder
      computes for [x] at the position the writer gave it *)
  Theorem leaf_written_dec (P : inode -> eres -> Prop) (rs : list eres) inline lo hi :
    Forall2 P l rs ->
    (forall l1 x l2 r, l = l1 ++ x :: l2 -> P x r ->
       elem_dec rd ps f (i_flags x, D0 + 0 + data_total l1, len (i_key x), len (i_val x)) = Some r) ->
    dec_page rd ps (S f) b limit inline lo hi =
    Some {| r_ents := map (fun r : eres => let '(k, e, _, _, _) := r in (k, e)) rs;
            r_pages := (if inline then [] else [(pg, ov, leaf_page_flag)])
                       ++ flat_map (fun r : eres => let '(_, _, p, _, _) := r in p) rs;
            r_order := key_order lo hi (keys_of l) && forallb (fun r : eres => let '(_, _, _, o, _) := r in o) rs;
            r_bounds := forallb (fun r : eres => let '(_, _, _, _, bd) := r in bd) rs |}.
  Proof.
    intros HF HG.
    rewrite (dec_page_leaf_unfold rd ps f b limit inline lo hi lg_fl). cbv zeta.
    rewrite lg_id, lg_cnt, lg_ovf, lg_elems.
    destruct lg_keys_bounds as (K1 & K2).
    rewrite (mapM_elems (elem_dec rd ps f) P D0 l 0 rs HF HG).
    unfold bytes in *. rewrite K1, K2.
    replace (b + 16 + 16 * c <=? limit) with true; [reflexivity|].
    symmetry. apply N.leb_le. unfold size in Hlimit. rewrite size_of_total in Hlimit. fold l c in Hlimit. fold b in Hlimit. lia.
  Qed.

End LeafGen.

(** results of plain elements *)
Definition plain_res (x : inode) : eres := (i_key x, Val (i_val x), [], true, true).

Lemma plain_res_ents l : map (fun r : eres => let '(k, e, _, _, _) := r in (k, e)) (map plain_res l) = map (fun x => (i_key x, Val (i_val x))) l.
Proof. rewrite map_map. reflexivity. Qed.
Lemma plain_res_pages l : flat_map (fun r : eres => let '(_, _, p, _, _) := r in p) (map plain_res l) = [].
Proof. induction l as [|x r IH]; [reflexivity|]. cbn [map flat_map plain_res app]. exact IH. Qed.
Lemma plain_res_order l : forallb (fun r : eres => let '(_, _, _, o, _) := r in o) (map plain_res l) = true.
Proof. induction l as [|x r IH]; [reflexivity|]. cbn [map forallb plain_res andb]. exact IH. Qed.
Lemma plain_res_bounds l : forallb (fun r : eres => let '(_, _, _, _, bd) := r in bd) (map plain_res l) = true.
Proof. induction l as [|x r IH]; [reflexivity|]. cbn [map forallb plain_res andb]. exact IH. Qed.

(** * (B1) a leaf whose elements carry arbitrary EVEN flags: all elements are plain values *)
Theorem leaf_flags_roundtrip ps f n pg ov img pre post limit inline lo hi :
  n_leaf n = true ->
  Forall (fun x => i_flags x < 2^32 /\ N.odd (i_flags x) = false) (n_inodes n) ->
  pg < 2^64 -> ov < 2^32 -> size n < 2^32 ->
  write n pg ov = Ok img ->
  N.of_nat (length pre) + size n <= limit ->
  dec_page (rd_of (pre ++ img ++ post)) ps (S f) (N.of_nat (length pre)) limit inline lo hi =
  Some {| r_ents := map (fun x => (i_key x, Val (i_val x))) (n_inodes n);
          r_pages := if inline then [] else [(pg, ov, leaf_page_flag)];
          r_order := key_order lo hi (keys_of (n_inodes n));
          r_bounds := true |}.
Proof.
  intros Hleaf Hfl Hpg Hov Hsz Hw Hlim.
  assert (Hfl1 : Forall (fun x => i_flags x < 2^32) (n_inodes n)) by (eapply Forall_impl; [|exact Hfl]; intros x [H _]; exact H).
  set (P := fun (x : inode) (r : eres) => N.odd (i_flags x) = false /\ r = plain_res x).
  assert (HF : Forall2 P (n_inodes n) (map plain_res (n_inodes n))).
  { clear -Hfl. induction Hfl as [|x r [_ Hx] _ IH]; cbn [map]; constructor; [split; [exact Hx | reflexivity] | exact IH]. }
  rewrite (leaf_written_dec ps f n pg ov img pre post limit Hleaf Hpg Hov Hsz Hw Hfl1 Hlim P _ inline lo hi HF).
  - rewrite plain_res_ents, plain_res_pages, plain_res_order, plain_res_bounds, app_nil_r, andb_true_r. reflexivity.
  - intros l1 x l2 r E [Hev ->]. apply (lg_plain ps f n pg ov img pre post Hleaf Hpg Hov Hsz Hw l1 x l2 E Hev).
Qed.

Print Assumptions leaf_flags_roundtrip.

(** * bucket elements (odd flags) inside a written leaf *)
Definition plain_ents (l : list inode) : list (bytes * entry) := map (fun x => (i_key x, Val (i_val x))) l.
Definition plain_flags (l : list inode) : Prop := Forall (fun x => i_flags x < 2^32 /\ N.odd (i_flags x) = false) l.

Lemma bucket_write_inv seq m v : bucket_write seq m = Ok v ->
  exists pgb, write m 0 0 = Ok pgb /\ v = enc_le 8 0 ++ enc_le 8 seq ++ pgb /\ len v = 16 + size m.
Proof.
  unfold bucket_write. destruct (write m 0 0) as [pgb| |] eqn:W; cbn [bindr]; try discriminate.
  intros H. assert (H1 : v = enc_inbucket 0 seq ++ pgb) by congruence. clear H. subst v. exists pgb. split; [reflexivity|]. unfold enc_inbucket. rewrite <- app_assoc. split; [reflexivity|].
  unfold len. rewrite !app_length, !enc_le_length, !Nat2N.inj_add, (write_length _ _ _ _ W). lia.
Qed.

Section BucketElems.
  Variables (ps : N) (n : node) (pg ov : N) (img pre post : list N).
  Hypothesis Hleaf : n_leaf n = true.
  Hypothesis Hpg : pg < 2^64.
  Hypothesis Hov : ov < 2^32.
  Hypothesis Hsize : size n < 2^32.
  Hypothesis Hwrite : write n pg ov = Ok img.

  Let rd := rd_of (pre ++ img ++ post).
  Let kpos (l1 : list inode) := N.of_nat (length pre) + 16 + 16 * N.of_nat (length (n_inodes n)) + 0 + data_total l1.

  (** the key and the first 16 bytes (bucket header) of the value of one element *)
  Lemma be_header l1 x l2 root seq rest : n_inodes n = l1 ++ x :: l2 ->
    i_val x = enc_le 8 root ++ enc_le 8 seq ++ rest -> root < 2^64 -> seq < 2^64 ->
    let vb := kpos l1 + len (i_key x) in
    rbytes rd (N.to_nat (len (i_key x))) (kpos l1) = i_key x /\ u64 rd vb = root /\ u64 rd (vb + 8) = seq /\
    exists A B, pre ++ img ++ post = A ++ rest ++ B /\ N.of_nat (length A) = vb + 16.
  Proof.
    intros E Hv Hroot Hseq vb.
    destruct (lg_elem_at n pg ov img pre post Hleaf Hpg Hov Hsize Hwrite l1 x l2 E) as (A & B & EF & LA & _ & _).
    cbv zeta in LA. fold (kpos l1) in LA. rewrite Hv in EF.
    assert (LAk : N.of_nat (length (A ++ i_key x)) = vb).
    { rewrite app_length, Nat2N.inj_add, LA. reflexivity. }
    split; [|split; [|split]].
    - unfold rd. rewrite EF, <- LA. unfold len. rewrite Nat2N.id. apply rbytes_app.
    - unfold rd, u64. rewrite EF, <- LAk.
      replace (A ++ i_key x ++ (enc_le 8 root ++ enc_le 8 seq ++ rest) ++ B)
        with ((A ++ i_key x) ++ enc_le 8 root ++ (enc_le 8 seq ++ rest ++ B)) by (rewrite <- !app_assoc; reflexivity).
      apply le_enc_le. exact Hroot.
    - unfold rd, u64. rewrite EF, <- LAk.
      replace (A ++ i_key x ++ (enc_le 8 root ++ enc_le 8 seq ++ rest) ++ B)
        with ((A ++ i_key x) ++ enc_le 8 root ++ enc_le 8 seq ++ (rest ++ B)) by (rewrite <- !app_assoc; reflexivity).
      apply le_at; [exact Hseq | now rewrite enc_le_length].
    - exists (A ++ i_key x ++ enc_le 8 root ++ enc_le 8 seq), B. split.
      + rewrite EF, <- !app_assoc. reflexivity.
      + rewrite app_assoc, app_length, Nat2N.inj_add, LAk, app_length, !enc_le_length. lia.
  Qed.

  (** an inline bucket: value = Bucket.write of a leaf [m] with plain elements *)
  Lemma be_inline f l1 x l2 seq m : n_inodes n = l1 ++ x :: l2 ->
    N.odd (i_flags x) = true -> seq < 2^64 ->
    n_leaf m = true -> plain_flags (n_inodes m) -> bucket_write seq m = Ok (i_val x) ->
    elem_dec rd ps (S f) (i_flags x, kpos l1, len (i_key x), len (i_val x))
    = Some (i_key x, Sub seq (plain_ents (n_inodes m)), [], key_order None None (keys_of (n_inodes m)), true).
  Proof.
    intros E Hodd Hseq Hml Hmf Hbw.
    destruct (bucket_write_inv seq m _ Hbw) as (pgb & W & Hv & Hlen).
    destruct (be_header l1 x l2 0 seq pgb E Hv) as (Ek & Er & Es & A & B & EF & LA); [reflexivity | exact Hseq |].
    destruct (lg_elem_at n pg ov img pre post Hleaf Hpg Hov Hsize Hwrite l1 x l2 E) as (_ & _ & _ & _ & _ & H32).
    unfold elem_dec. rewrite Hodd, Ek, Er, Es. change (0 =? 0) with true. cbv iota.
    unfold rd. rewrite EF, <- LA.
    rewrite (leaf_flags_roundtrip ps f m 0 0 pgb A B _ true None None Hml Hmf); try reflexivity; try exact W.
    - cbn [r_ents r_pages r_order r_bounds andb]. unfold plain_ents.
      replace (16 <=? len (i_val x)) with true by (symmetry; apply N.leb_le; lia). reflexivity.
    - lia.
    - rewrite LA. lia.
  Qed.

  (** a paged bucket: value = the bucket header alone, the root page is read from the file *)
  Lemma be_paged f l1 x l2 root seq d : n_inodes n = l1 ++ x :: l2 ->
    N.odd (i_flags x) = true -> i_val x = bucket_header_value root seq ->
    root <> 0 -> root < 2^64 -> seq < 2^64 ->
    dec_page rd ps f (root * ps) (root * ps + (u32 rd (root * ps + 12) + 1) * ps) false None None = Some d ->
    elem_dec rd ps f (i_flags x, kpos l1, len (i_key x), len (i_val x))
    = Some (i_key x, Sub seq (r_ents d), r_pages d, r_order d, r_bounds d).
  Proof.
    intros E Hodd Hv Hnz Hroot Hseq Hd.
    assert (Hv' : i_val x = enc_le 8 root ++ enc_le 8 seq ++ []) by (rewrite Hv, app_nil_r; reflexivity).
    destruct (be_header l1 x l2 root seq [] E Hv' Hroot Hseq) as (Ek & Er & Es & _).
    unfold elem_dec. rewrite Hodd, Ek, Er, Es.
    destruct (N.eqb_spec root 0) as [E0|_]; [contradiction|].
    rewrite Hd. rewrite Hv. unfold bucket_header_value, enc_inbucket, len. rewrite app_length, !enc_le_length.
    change (16 <=? N.of_nat (8 + 8)) with true. rewrite andb_true_r. reflexivity.
  Qed.
End BucketElems.

(** what one element of a written leaf decodes to (file content [rd], fuel [f] left for sub-buckets) *)
Inductive elem_res (rd : N -> N) (ps : N) (f : nat) : inode -> eres -> Prop :=
| er_plain x : N.odd (i_flags x) = false -> elem_res rd ps f x (plain_res x)
| er_inline x seq m f' : f = S f' -> N.odd (i_flags x) = true -> seq < 2^64 ->
    n_leaf m = true -> plain_flags (n_inodes m) -> bucket_write seq m = Ok (i_val x) ->
    elem_res rd ps f x (i_key x, Sub seq (plain_ents (n_inodes m)), [], key_order None None (keys_of (n_inodes m)), true)
| er_paged x root seq d : N.odd (i_flags x) = true -> i_val x = bucket_header_value root seq ->
    root <> 0 -> root < 2^64 -> seq < 2^64 ->
    dec_page rd ps f (root * ps) (root * ps + (u32 rd (root * ps + 12) + 1) * ps) false None None = Some d ->
    elem_res rd ps f x (i_key x, Sub seq (r_ents d), r_pages d, r_order d, r_bounds d).

(** * (B2/B3, arbitrary mixtures) a written leaf whose elements are plain values, inline buckets and paged buckets *)
Theorem leaf_buckets_roundtrip ps f n pg ov img pre post limit inline lo hi rs :
  n_leaf n = true ->
  Forall (fun x => i_flags x < 2^32) (n_inodes n) ->
  pg < 2^64 -> ov < 2^32 -> size n < 2^32 ->
  write n pg ov = Ok img ->
  N.of_nat (length pre) + size n <= limit ->
  Forall2 (elem_res (rd_of (pre ++ img ++ post)) ps f) (n_inodes n) rs ->
  dec_page (rd_of (pre ++ img ++ post)) ps (S f) (N.of_nat (length pre)) limit inline lo hi =
  Some {| r_ents := map (fun r : eres => let '(k, e, _, _, _) := r in (k, e)) rs;
          r_pages := (if inline then [] else [(pg, ov, leaf_page_flag)])
                     ++ flat_map (fun r : eres => let '(_, _, p, _, _) := r in p) rs;
          r_order := key_order lo hi (keys_of (n_inodes n)) && forallb (fun r : eres => let '(_, _, _, o, _) := r in o) rs;
          r_bounds := forallb (fun r : eres => let '(_, _, _, _, bd) := r in bd) rs |}.
Proof.
  intros Hleaf Hfl Hpg Hov Hsz Hw Hlim HF.
  apply (leaf_written_dec ps f n pg ov img pre post limit Hleaf Hpg Hov Hsz Hw Hfl Hlim _ rs inline lo hi HF).
  intros l1 x l2 r E Hr. destruct Hr as [x Hev | x seq m f' Ef Hodd Hseq Hml Hmf Hbw | x root seq d Hodd Hv Hnz Hroot Hseq Hd].
  - apply (lg_plain ps f n pg ov img pre post Hleaf Hpg Hov Hsz Hw l1 x l2 E Hev).
  - subst f. apply (be_inline ps n pg ov img pre post Hleaf Hpg Hov Hsz Hw f' l1 x l2 seq m E Hodd Hseq Hml Hmf Hbw).
  - apply (be_paged ps n pg ov img pre post Hleaf Hpg Hov Hsz Hw f l1 x l2 root seq d E Hodd Hv Hnz Hroot Hseq Hd).
Qed.

Print Assumptions leaf_buckets_roundtrip.

(** * one bucket element between plain elements *)
Lemma plain_flags_res rd ps f l : plain_flags l -> Forall2 (elem_res rd ps f) l (map plain_res l).
Proof.
  induction 1 as [|x r [_ Hx] _ IH]; cbn [map]; constructor; [apply er_plain; exact Hx | exact IH].
Qed.

Lemma plain_flags_lt l : plain_flags l -> Forall (fun x => i_flags x < 2^32) l.
Proof. intros H. eapply Forall_impl; [|exact H]. intros x [Hx _]. exact Hx. Qed.

Lemma leaf_one_bucket ps f n pg ov img pre post limit inline lo hi l1 x l2 k e p o bd :
  n_leaf n = true -> n_inodes n = l1 ++ x :: l2 ->
  plain_flags l1 -> plain_flags l2 -> i_flags x < 2^32 ->
  pg < 2^64 -> ov < 2^32 -> size n < 2^32 ->
  write n pg ov = Ok img ->
  N.of_nat (length pre) + size n <= limit ->
  elem_res (rd_of (pre ++ img ++ post)) ps f x (k, e, p, o, bd) ->
  dec_page (rd_of (pre ++ img ++ post)) ps (S f) (N.of_nat (length pre)) limit inline lo hi =
  Some {| r_ents := plain_ents l1 ++ (k, e) :: plain_ents l2;
          r_pages := (if inline then [] else [(pg, ov, leaf_page_flag)]) ++ p;
          r_order := key_order lo hi (keys_of (n_inodes n)) && o;
          r_bounds := bd |}.
Proof.
  intros Hleaf E H1 H2 Hx Hpg Hov Hsz Hw Hlim Hr.
  assert (Hfl : Forall (fun y => i_flags y < 2^32) (n_inodes n)).
  { rewrite E. apply Forall_app. split; [apply plain_flags_lt; exact H1 | constructor; [exact Hx | apply plain_flags_lt; exact H2]]. }
  assert (HF : Forall2 (elem_res (rd_of (pre ++ img ++ post)) ps f) (n_inodes n) (map plain_res l1 ++ (k, e, p, o, bd) :: map plain_res l2)).
  { rewrite E. apply Forall2_app; [apply plain_flags_res; exact H1 | constructor; [exact Hr | apply plain_flags_res; exact H2]]. }
  rewrite (leaf_buckets_roundtrip ps f n pg ov img pre post limit inline lo hi _ Hleaf Hfl Hpg Hov Hsz Hw Hlim HF).
  rewrite map_app, flat_map_app, !forallb_app. cbn [map flat_map forallb].
  rewrite !plain_res_ents, !plain_res_pages, !plain_res_order, !plain_res_bounds, app_nil_r.
  cbn [app andb]. rewrite !andb_true_r. reflexivity.
Qed.

(** * (B2) an inline bucket between plain elements.  The flag of the bucket element may be any odd value below 2^32,
    in particular bucket_leaf_flag = 1; the plain elements may carry any even flags. *)
Theorem inline_bucket_roundtrip ps f n pg ov img pre post limit inline lo hi l1 x l2 seq m :
  n_leaf n = true -> n_inodes n = l1 ++ [x] ++ l2 ->
  plain_flags l1 -> plain_flags l2 ->
  i_flags x < 2^32 -> N.odd (i_flags x) = true ->
  seq < 2^64 -> n_leaf m = true -> plain_flags (n_inodes m) -> bucket_write seq m = Ok (i_val x) ->
  pg < 2^64 -> ov < 2^32 -> size n < 2^32 ->
  write n pg ov = Ok img ->
  N.of_nat (length pre) + size n <= limit ->
  dec_page (rd_of (pre ++ img ++ post)) ps (S (S f)) (N.of_nat (length pre)) limit inline lo hi =
  Some {| r_ents := plain_ents l1 ++ [(i_key x, Sub seq (plain_ents (n_inodes m)))] ++ plain_ents l2;
          r_pages := if inline then [] else [(pg, ov, leaf_page_flag)];
          r_order := key_order lo hi (keys_of (n_inodes n)) && key_order None None (keys_of (n_inodes m));
          r_bounds := true |}.
Proof.
  intros Hleaf E H1 H2 Hx Hodd Hseq Hml Hmf Hbw Hpg Hov Hsz Hw Hlim.
  rewrite (leaf_one_bucket ps (S f) n pg ov img pre post limit inline lo hi l1 x l2
             (i_key x) (Sub seq (plain_ents (n_inodes m))) [] (key_order None None (keys_of (n_inodes m))) true
             Hleaf E H1 H2 Hx Hpg Hov Hsz Hw Hlim).
  - rewrite app_nil_r. reflexivity.
  - apply (er_inline _ _ _ x seq m f eq_refl Hodd Hseq Hml Hmf Hbw).
Qed.

(** the value of an inline bucket is its 16-byte header plus the serialised root: 16 + size m bytes *)
Corollary inline_value_length seq m v : bucket_write seq m = Ok v -> len v = 16 + size m.
Proof. intros H. destruct (bucket_write_inv seq m v H) as (_ & _ & _ & L). exact L. Qed.

(** * (B3) a paged bucket between plain elements; its root leaf [m] is written at page [root] (offset root * ps) of the
    same file, behind the parent and [pad] bytes of anything *)
Theorem paged_bucket_roundtrip ps f n pg ov img pre pad cimg post limit inline lo hi l1 x l2 root seq m ov' :
  n_leaf n = true -> n_inodes n = l1 ++ [x] ++ l2 ->
  plain_flags l1 -> plain_flags l2 ->
  i_flags x < 2^32 -> N.odd (i_flags x) = true ->
  i_val x = bucket_header_value root seq -> root <> 0 -> root < 2^64 -> seq < 2^64 ->
  pg < 2^64 -> ov < 2^32 -> size n < 2^32 ->
  write n pg ov = Ok img ->
  N.of_nat (length pre) + size n <= limit ->
  n_leaf m = true -> plain_flags (n_inodes m) -> ov' < 2^32 -> size m < 2^32 ->
  write m root ov' = Ok cimg ->
  N.of_nat (length (pre ++ img ++ pad)) = root * ps ->
  size m <= (ov' + 1) * ps ->
  dec_page (rd_of (pre ++ img ++ pad ++ cimg ++ post)) ps (S (S f)) (N.of_nat (length pre)) limit inline lo hi =
  Some {| r_ents := plain_ents l1 ++ [(i_key x, Sub seq (plain_ents (n_inodes m)))] ++ plain_ents l2;
          r_pages := (if inline then [] else [(pg, ov, leaf_page_flag)]) ++ [(root, ov', leaf_page_flag)];
          r_order := key_order lo hi (keys_of (n_inodes n)) && key_order None None (keys_of (n_inodes m));
          r_bounds := true |}.
Proof.
  intros Hleaf E H1 H2 Hx Hodd Hv Hnz Hroot Hseq Hpg Hov Hsz Hw Hlim Hml Hmf Hov' Hmsz Hcw Hoff Hfit.
  set (post' := pad ++ cimg ++ post).
  set (d := {| r_ents := plain_ents (n_inodes m); r_pages := [(root, ov', leaf_page_flag)];
               r_order := key_order None None (keys_of (n_inodes m)); r_bounds := true |}).
  rewrite (leaf_one_bucket ps (S f) n pg ov img pre post' limit inline lo hi l1 x l2
             (i_key x) (Sub seq (r_ents d)) (r_pages d) (r_order d) (r_bounds d)
             Hleaf E H1 H2 Hx Hpg Hov Hsz Hw Hlim).
  - reflexivity.
  - apply (er_paged _ _ _ x root seq d Hodd Hv Hnz Hroot Hseq).
    unfold post'.
    replace (pre ++ img ++ pad ++ cimg ++ post) with ((pre ++ img ++ pad) ++ cimg ++ post) by (rewrite <- !app_assoc; reflexivity).
    rewrite <- Hoff.
    rewrite (lg_ovf m root ov' cimg (pre ++ img ++ pad) post Hml Hov' Hcw).
    apply (leaf_flags_roundtrip ps f m root ov' cimg (pre ++ img ++ pad) post _ false None None Hml Hmf Hroot Hov' Hmsz Hcw).
    rewrite Hoff. lia.
Qed.

Print Assumptions inline_bucket_roundtrip.
Print Assumptions paged_bucket_roundtrip.

(** (B3, specification form) the root page of the paged bucket given as the published layout [enc_leaf_page_ov root ov' kvs] *)
Theorem paged_bucket_spec_roundtrip ps f n pg ov img pre pad post limit inline lo hi l1 x l2 root seq ov' kvs :
  n_leaf n = true -> n_inodes n = l1 ++ [x] ++ l2 ->
  plain_flags l1 -> plain_flags l2 ->
  i_flags x < 2^32 -> N.odd (i_flags x) = true ->
  i_val x = bucket_header_value root seq -> root <> 0 -> root < 2^64 -> seq < 2^64 ->
  pg < 2^64 -> ov < 2^32 -> size n < 2^32 ->
  write n pg ov = Ok img ->
  N.of_nat (length pre) + size n <= limit ->
  ov' < 2^32 -> N.of_nat (length kvs) < 65536 ->
  N.of_nat (length (enc_leaf_page_ov root ov' kvs)) < 2^32 ->
  strictly_inc (map fst kvs) = true ->
  N.of_nat (length (pre ++ img ++ pad)) = root * ps ->
  N.of_nat (length (enc_leaf_page_ov root ov' kvs)) <= (ov' + 1) * ps ->
  dec_page (rd_of (pre ++ img ++ pad ++ enc_leaf_page_ov root ov' kvs ++ post)) ps (S (S f)) (N.of_nat (length pre)) limit inline lo hi =
  Some {| r_ents := plain_ents l1 ++ [(i_key x, Sub seq (map (fun kv => (fst kv, Val (snd kv))) kvs))] ++ plain_ents l2;
          r_pages := (if inline then [] else [(pg, ov, leaf_page_flag)]) ++ [(root, ov', leaf_page_flag)];
          r_order := key_order lo hi (keys_of (n_inodes n));
          r_bounds := true |}.
Proof.
  intros Hleaf E H1 H2 Hx Hodd Hv Hnz Hroot Hseq Hpg Hov Hsz Hw Hlim Hov' Hc H32 Hinc Hoff Hfit.
  set (child := enc_leaf_page_ov root ov' kvs) in *.
  set (post' := pad ++ child ++ post).
  set (d := {| r_ents := map (fun kv : bytes * bytes => (fst kv, Val (snd kv))) kvs; r_pages := [(root, ov', leaf_page_flag)];
               r_order := true; r_bounds := true |}).
  rewrite (leaf_one_bucket ps (S f) n pg ov img pre post' limit inline lo hi l1 x l2
             (i_key x) (Sub seq (r_ents d)) (r_pages d) (r_order d) (r_bounds d)
             Hleaf E H1 H2 Hx Hpg Hov Hsz Hw Hlim).
  - cbn [r_order d]. rewrite andb_true_r. reflexivity.
  - apply (er_paged _ _ _ x root seq d Hodd Hv Hnz Hroot Hseq).
    unfold post'.
    replace (pre ++ img ++ pad ++ child ++ post) with ((pre ++ img ++ pad) ++ child ++ post) by (rewrite <- !app_assoc; reflexivity).
    rewrite <- Hoff.
    assert (Eo : u32 (rd_of ((pre ++ img ++ pad) ++ child ++ post)) (N.of_nat (length (pre ++ img ++ pad)) + 12) = ov').
    { generalize (pre ++ img ++ pad). intros P0. unfold child, enc_leaf_page_ov. rewrite <- !app_assoc.
      apply header_overflow. exact Hov'. }
    rewrite Eo.
    apply leaf_page_ov_roundtrip; try assumption; [lia|].
    rewrite Hoff. fold child. lia.
Qed.

Print Assumptions paged_bucket_spec_roundtrip.

(** * examples (page size 256): the hypotheses are satisfiable and the decoder computes what the theorems say *)
Definition ex_in_m : node :=
  {| n_leaf := true; n_unbal := false;
     n_inodes := [ {| i_flags := 0; i_key := [10]; i_val := [11]; i_pgid := 0 |};
                   {| i_flags := 0; i_key := [20]; i_val := [21; 22]; i_pgid := 0 |} ] |}.
Definition ex_in_val : list N := match bucket_write 7 ex_in_m with Ok v => v | _ => [] end.
Definition ex_in_x : inode := {| i_flags := bucket_leaf_flag; i_key := [5]; i_val := ex_in_val; i_pgid := 0 |}.
Definition ex_in_p : inode := {| i_flags := 0; i_key := [1]; i_val := [2; 3]; i_pgid := 0 |}.
Definition ex_in_n : node := {| n_leaf := true; n_unbal := false; n_inodes := [ex_in_p; ex_in_x] |}.
Definition ex_in_img : list N := match write ex_in_n 2 0 with Ok b => b | _ => [] end.

(** the value of the inline bucket: root 0, sequence 7, then the root leaf as a page with id 0 *)
Example ex_inline_value_bytes :
  ex_in_val =
  [0;0;0;0;0;0;0;0; 7;0;0;0;0;0;0;0;                          (* bucket header: root 0, sequence 7 *)
   0;0;0;0;0;0;0;0; 2;0; 2;0; 0;0;0;0;                         (* page header: id 0, leaf, count 2, overflow 0 *)
   0;0;0;0; 32;0;0;0; 1;0;0;0; 1;0;0;0;                        (* flags 0, pos 32, ksize 1, vsize 1 *)
   0;0;0;0; 18;0;0;0; 1;0;0;0; 2;0;0;0;                        (* flags 0, pos 18, ksize 1, vsize 2 *)
   10; 11; 20; 21;22].
Proof. vm_compute. reflexivity. Qed.

(** parent leaf at page 2 of a file with page size 256: one plain element, one inline bucket with two keys *)
Example ex_inline_decodes :
  dec_page (rd_of (repeat 0 512 ++ ex_in_img ++ repeat 0 100)) 256 2 512 768 false None None
  = Some {| r_ents := [([1], Val [2; 3]); ([5], Sub 7 [([10], Val [11]); ([20], Val [21; 22])])];
            r_pages := [(2, 0, leaf_page_flag)]; r_order := true; r_bounds := true |}.
Proof. vm_compute. reflexivity. Qed.

(** the same through the theorem: its hypotheses hold for this node *)
Example ex_inline_by_theorem :
  dec_page (rd_of (repeat 0 512 ++ ex_in_img ++ repeat 0 100)) 256 2 512 768 false None None
  = Some {| r_ents := plain_ents [ex_in_p] ++ [([5], Sub 7 (plain_ents (n_inodes ex_in_m)))] ++ plain_ents [];
            r_pages := [(2, 0, leaf_page_flag)];
            r_order := key_order None None (keys_of (n_inodes ex_in_n)) && key_order None None (keys_of (n_inodes ex_in_m));
            r_bounds := true |}.
Proof.
  apply (inline_bucket_roundtrip 256 0 ex_in_n 2 0 ex_in_img (repeat 0 512) (repeat 0 100) 768 false None None
           [ex_in_p] ex_in_x [] 7 ex_in_m); try reflexivity.
  - repeat constructor.
  - constructor.
  - repeat constructor.
  - vm_compute. discriminate.
Qed.

(** one level only: fuel 1 is not enough to enter the inline bucket *)
Example ex_inline_needs_fuel_2 :
  dec_page (rd_of (repeat 0 512 ++ ex_in_img ++ repeat 0 100)) 256 1 512 768 false None None = None.
Proof. vm_compute. reflexivity. Qed.

(** any even flag value is a plain element, any odd one a bucket: the reader only tests the low bit *)
Example ex_even_flag_plain :
  match write {| n_leaf := true; n_unbal := false;
                 n_inodes := [ {| i_flags := 4; i_key := [1]; i_val := [2; 3]; i_pgid := 0 |} ] |} 2 0 with
  | Ok b => dec_page (rd_of (repeat 0 512 ++ b)) 256 1 512 768 false None None
            = Some {| r_ents := [([1], Val [2; 3])]; r_pages := [(2, 0, leaf_page_flag)]; r_order := true; r_bounds := true |}
  | _ => False end.
Proof. vm_compute. reflexivity. Qed.

(** a paged bucket: parent leaf at page 2, the bucket's root leaf at page 3 *)
Definition ex_pg_x : inode := {| i_flags := bucket_leaf_flag; i_key := [5]; i_val := bucket_header_value 3 9; i_pgid := 0 |}.
Definition ex_pg_n : node := {| n_leaf := true; n_unbal := false; n_inodes := [ex_in_p; ex_pg_x] |}.
Definition ex_pg_img : list N := match write ex_pg_n 2 0 with Ok b => b | _ => [] end.
Definition ex_pg_file : list N :=
  repeat 0 512 ++ ex_pg_img ++ repeat 0 (256 - length ex_pg_img) ++ enc_leaf_page_ov 3 0 [([10], [11]); ([20], [21; 22])] ++ [].

Example ex_paged_decodes :
  dec_page (rd_of ex_pg_file) 256 2 512 768 false None None
  = Some {| r_ents := [([1], Val [2; 3]); ([5], Sub 9 [([10], Val [11]); ([20], Val [21; 22])])];
            r_pages := [(2, 0, leaf_page_flag); (3, 0, leaf_page_flag)]; r_order := true; r_bounds := true |}.
Proof. vm_compute. reflexivity. Qed.

Example ex_paged_by_theorem :
  dec_page (rd_of ex_pg_file) 256 2 512 768 false None None
  = Some {| r_ents := plain_ents [ex_in_p] ++ [([5], Sub 9 (map (fun kv => (fst kv, Val (snd kv))) [([10], [11]); ([20], [21; 22])]))] ++ plain_ents [];
            r_pages := [(2, 0, leaf_page_flag)] ++ [(3, 0, leaf_page_flag)];
            r_order := key_order None None (keys_of (n_inodes ex_pg_n));
            r_bounds := true |}.
Proof.
  apply (paged_bucket_spec_roundtrip 256 0 ex_pg_n 2 0 ex_pg_img (repeat 0 512) (repeat 0 (256 - length ex_pg_img)) [] 768 false None None
           [ex_in_p] ex_pg_x [] 3 9 0 [([10], [11]); ([20], [21; 22])]); try reflexivity.
  - repeat constructor.
  - constructor.
  - discriminate.
  - vm_compute. discriminate.
  - vm_compute. discriminate.
Qed.

(** a mixture in one leaf (the general theorem [leaf_buckets_roundtrip] covers it): plain, inline bucket, paged bucket,
    plain with flag 2; the inline bucket contributes no page, the paged one its root page 3 *)
Definition ex_mix_n : node :=
  {| n_leaf := true; n_unbal := false;
     n_inodes := [ex_in_p; ex_in_x; {| i_flags := 1; i_key := [6]; i_val := bucket_header_value 3 9; i_pgid := 0 |};
                  {| i_flags := 2; i_key := [8]; i_val := []; i_pgid := 0 |}] |}.
Definition ex_mix_img : list N := match write ex_mix_n 2 0 with Ok b => b | _ => [] end.
Example ex_mixture_decodes :
  dec_page (rd_of (repeat 0 512 ++ ex_mix_img ++ repeat 0 (256 - length ex_mix_img)
                   ++ enc_leaf_page_ov 3 0 [([10], [11]); ([20], [21; 22])])) 256 2 512 768 false None None
  = Some {| r_ents := [([1], Val [2; 3]); ([5], Sub 7 [([10], Val [11]); ([20], Val [21; 22])]);
                       ([6], Sub 9 [([10], Val [11]); ([20], Val [21; 22])]); ([8], Val [])];
            r_pages := [(2, 0, leaf_page_flag); (3, 0, leaf_page_flag)]; r_order := true; r_bounds := true |}.
Proof. vm_compute. reflexivity. Qed.

Print Assumptions key_order_true_iff.
Print Assumptions key_order_none.
Print Assumptions leaf_written_dec.
