(** Proofs about shared.Free / shared.Rollback of the freelist model (Freelist.v), and soundness /
    non-vacuity of the decision procedures [free_ok], [rollback_ok], [release_ok]. *)
From Bbolt Require Import Base BaseProofs Freelist FreelistProofs FreelistAllocProofs FreelistReleaseProofs.
From Coq Require Import Sorting.Permutation Sorting.Sorted.

(** * generic facts *)

Lemma eqlN_eq a b : eqlN a b = true -> a = b.
Proof.
  revert b; induction a as [|x a IH]; intros [|y b]; cbn [eqlN]; try discriminate; [reflexivity|].
  rewrite andb_true_iff. intros [E H]. apply N.eqb_eq in E. f_equal; auto.
Qed.

Lemma eqlN_rfl a : eqlN a a = true.
Proof. induction a as [|x a IH]; [reflexivity|]. cbn [eqlN]. now rewrite N.eqb_refl, IH. Qed.

Lemma sortN_eq_perm a b : sortN a = sortN b -> Permutation a b.
Proof.
  intros E. eapply Permutation_trans; [apply sortN_perm|]. rewrite E.
  apply Permutation_sym, sortN_perm.
Qed.

Lemma ssorted_perm_eq l1 : forall l2,
  StronglySorted N.le l1 -> StronglySorted N.le l2 -> Permutation l1 l2 -> l1 = l2.
Proof.
  induction l1 as [|x l1 IH]; intros l2 S1 S2 P.
  - apply Permutation_nil in P. now subst.
  - destruct l2 as [|y l2]; [apply Permutation_sym, Permutation_nil in P; discriminate|].
    inversion S1 as [|? ? S1' F1]; inversion S2 as [|? ? S2' F2]; subst.
    assert (x = y).
    { assert (Hx: In x (y :: l2)) by (eapply Permutation_in; [exact P | now left]).
      assert (Hy: In y (x :: l1)) by (eapply Permutation_in; [apply Permutation_sym; exact P | now left]).
      destruct Hx as [->|Hx]; [reflexivity|]. destruct Hy as [->|Hy]; [reflexivity|].
      rewrite Forall_forall in F1, F2. specialize (F1 _ Hy). specialize (F2 _ Hx). lia. }
    subst y. f_equal. apply IH; auto. eapply Permutation_cons_inv; eauto.
Qed.

Lemma sortN_ssorted l : StronglySorted N.le (sortN l).
Proof.
  apply Sorted_StronglySorted; [|apply sortN_sorted_le].
  intros a b c. apply N.le_trans.
Qed.

Lemma perm_sortN_eq a b : Permutation a b -> sortN a = sortN b.
Proof.
  intros P. apply ssorted_perm_eq; try apply sortN_ssorted.
  eapply Permutation_trans; [apply Permutation_sym, sortN_perm|].
  eapply Permutation_trans; [exact P | apply sortN_perm].
Qed.

(** * Part 2: soundness of the decision procedures *)

Theorem free_ok_sound txid id ov sb sa : free_ok txid id ov sb sa = true ->
  free sa = free sb /\ Permutation (pending_ids (pending sa)) (pending_ids (pending sb) ++ run id (ov + 1)) /\
  forall x, In x (run id (ov + 1)) -> exists a, In (txid, x, a) (pend_pairs (pending sa)).
Proof.
  unfold free_ok. rewrite !andb_true_iff. intros [[H1 H2] H3].
  apply eqlN_eq in H1, H2. split; [exact H1|]. split; [now apply sortN_eq_perm|].
  intros x Hx. rewrite forallb_forall in H3. specialize (H3 x Hx). apply existsb_exists in H3.
  destruct H3 as [[[t p] a] [Hin Hc]]. cbn [fst snd] in Hc. apply andb_true_iff in Hc.
  destruct Hc as [E1 E2]. apply N.eqb_eq in E1, E2. subst. exists a. exact Hin.
Qed.

Theorem rollback_ok_sound txid sb sa : rollback_ok txid sb sa = true ->
  free sa = free sb /\ (forall e, In e (pending sa) -> fst e <> txid) /\
  Permutation (pending_ids (pending sa)) (map (fun t => snd (fst t)) (filter (fun t => negb (fst (fst t) =? txid)) (pend_pairs (pending sb)))).
Proof.
  unfold rollback_ok. rewrite !andb_true_iff. intros [[H1 H2] H3].
  apply eqlN_eq in H1, H2. split; [exact H1|]. split.
  - intros e He E. apply negb_true_iff in H3. rewrite <- not_true_iff_false in H3. apply H3.
    apply existsb_exists. exists e. split; [exact He|]. now apply N.eqb_eq.
  - apply Permutation_sym, sortN_eq_perm. exact H2.
Qed.

Theorem release_ok_sound sb sa : release_ok sb sa = true ->
  Permutation (cache sa) (cache sb) /\ (forall x, In x (free sb) -> In x (free sa)) /\
  (forall tid p a, In (tid, p, a) (pend_pairs (pending sb)) -> In p (free sa) -> ~ In p (free sb) ->
     forall r, In r (readers sb) -> visible_to a tid r = false) /\
  (readers sb = [] -> pending sa = []).
Proof.
  unfold release_ok. rewrite !andb_true_iff. intros [[[H1 H2] H3] H4].
  apply eqlN_eq in H1. split; [now apply sortN_eq_perm|]. split; [|split].
  - intros x Hx. rewrite forallb_forall in H2. apply memN_in. now apply H2.
  - intros tid p a Hin Hsa Hnsb r Hr. rewrite forallb_forall in H3. specialize (H3 _ Hin).
    cbv beta iota in H3. apply orb_true_iff in H3. destruct H3 as [H3|H3].
    + exfalso. apply negb_true_iff in H3. apply memN_false in H3. apply H3.
      apply filter_In. split; [exact Hsa|]. apply negb_true_iff. now apply memN_false.
    + apply negb_true_iff in H3. destruct (visible_to a tid r) eqn:V; [|reflexivity].
      rewrite <- not_true_iff_false in H3. exfalso. apply H3. apply existsb_exists. eauto.
  - intros Hr. rewrite Hr in H4. destruct (pending sa); [reflexivity | discriminate].
Qed.

(** * association lists *)

Lemma alookup_in {A} k (l : list (N * A)) v : alookup k l = Some v -> In (k, v) l.
Proof.
  induction l as [|[k0 v0] l IH]; cbn [alookup]; [discriminate|].
  destruct (N.eqb_spec k k0) as [->|Hne]; intros H.
  - inversion H. now left.
  - right. auto.
Qed.

Lemma alookup_notin {A} k (l : list (N * A)) : ~ In k (map fst l) -> alookup k l = None.
Proof.
  induction l as [|[k0 v0] l IH]; cbn [alookup map fst]; [reflexivity|]. intros H.
  destruct (N.eqb_spec k k0) as [->|Hne]; [exfalso; apply H; now left|].
  apply IH. intros Hin. apply H. now right.
Qed.

Lemma alookup_none_keys {A} k (l : list (N * A)) : alookup k l = None -> ~ In k (map fst l).
Proof.
  induction l as [|[k0 v0] l IH]; cbn [alookup map fst]; [tauto|].
  destruct (N.eqb_spec k k0) as [->|Hne]; [discriminate|]. intros H [E|Hin]; [congruence|].
  now apply IH.
Qed.

Lemma alookup_replace {A} k (v : A) l old : alookup k l = Some old ->
  alookup k (map (fun e => if fst e =? k then (k, v) else e) l) = Some v.
Proof.
  induction l as [|[k0 v0] l IH]; cbn [alookup map fst]; [discriminate|].
  destruct (N.eqb_spec k k0) as [->|Hne].
  - intros _. rewrite N.eqb_refl. cbn [alookup]. now rewrite N.eqb_refl.
  - intros H. destruct (N.eqb_spec k0 k); [congruence|]. cbn [alookup].
    destruct (N.eqb_spec k k0); [congruence|]. auto.
Qed.

Lemma aremove_replace {A} k (v : A) l :
  aremove k (map (fun e => if fst e =? k then (k, v) else e) l) = aremove k l.
Proof.
  induction l as [|[k0 v0] l IH]; [reflexivity|]. cbn [map fst].
  destruct (N.eqb_spec k0 k) as [->|Hne]; cbn [aremove].
  - rewrite N.eqb_refl. exact IH.
  - destruct (N.eqb_spec k k0); [congruence|]. now rewrite IH.
Qed.

Lemma keys_replace {A} k (v : A) l :
  map fst (map (fun e => if fst e =? k then (k, v) else e) l) = map fst l.
Proof.
  induction l as [|[k0 v0] l IH]; [reflexivity|]. cbn [map fst].
  destruct (N.eqb_spec k0 k) as [->|Hne]; cbn [fst]; now rewrite IH.
Qed.

Lemma aremove_app {A} k (l l' : list (N * A)) : aremove k (l ++ l') = aremove k l ++ aremove k l'.
Proof.
  induction l as [|[k0 v0] l IH]; [reflexivity|]. cbn [app aremove].
  destruct (k =? k0); [exact IH|]. cbn [app]. now rewrite IH.
Qed.

Lemma alookup_app_none {A} k (l l' : list (N * A)) : alookup k l = None -> alookup k (l ++ l') = alookup k l'.
Proof.
  induction l as [|[k0 v0] l IH]; [reflexivity|]. cbn [app alookup].
  destruct (k =? k0); [discriminate | exact IH].
Qed.

Lemma alookup_aset {A} p k (v : A) l : alookup p (aset k v l) = if p =? k then Some v else alookup p l.
Proof.
  unfold aset. cbn [alookup]. destruct (N.eqb_spec p k) as [->|Hne]; [reflexivity|].
  now apply alookup_aremove_ne.
Qed.

Lemma alookup_aremove_some {A} k k' (l : list (N * A)) a :
  alookup k (aremove k' l) = Some a -> alookup k l = Some a.
Proof.
  destruct (N.eq_dec k k') as [->|Hne].
  - now rewrite alookup_aremove_eq.
  - now rewrite alookup_aremove_ne.
Qed.

Lemma in_aremove {A} k (l : list (N * A)) e : In e (aremove k l) -> In e l /\ fst e <> k.
Proof.
  induction l as [|[k0 v0] l IH]; cbn [aremove]; [tauto|].
  destruct (N.eqb_spec k k0) as [->|Hne].
  - intros H. destruct (IH H). split; [now right | assumption].
  - intros [<-|H]; [split; [now left | cbn [fst]; congruence]|].
    destruct (IH H). split; [now right | assumption].
Qed.

Lemma keys_unique_aremove {A} k (l : list (N * A)) : keys_unique l -> keys_unique (aremove k l).
Proof.
  unfold keys_unique. induction l as [|[k0 v0] l IH]; cbn [aremove map fst]; [tauto|]. intros H.
  inversion H as [|? ? Hn Hu]; subst. destruct (k =? k0); [now apply IH|].
  cbn [map fst]. constructor; [|now apply IH]. intros Hin. apply Hn.
  apply in_map_iff in Hin. destruct Hin as [e [E Hin]]. apply in_aremove in Hin.
  apply in_map_iff. exists e. tauto.
Qed.

Lemma keys_unique_aset {A} k (v : A) (l : list (N * A)) : keys_unique l -> keys_unique (aset k v l).
Proof.
  intros H. unfold aset, keys_unique. cbn [map fst]. constructor; [|now apply keys_unique_aremove].
  intros Hin. apply in_map_iff in Hin. destruct Hin as [e [E Hin]]. apply in_aremove in Hin. tauto.
Qed.

Lemma NoDup_snoc {A} (l : list A) x : NoDup l -> ~ In x l -> NoDup (l ++ [x]).
Proof.
  induction l as [|y l IH]; intros Hn Hx; cbn [app]; [constructor; [tauto | constructor]|].
  inversion Hn as [|? ? Hy Hl]; subst. constructor.
  - rewrite in_app_iff. intros [H|[H|[]]]; [tauto|]. subst. apply Hx. now left.
  - apply IH; [exact Hl|]. intros H. apply Hx. now right.
Qed.

(** * Free, step by step *)

Definition tids (txid : N) (s : fl) : list (N * N) :=
  match alookup txid (pending s) with Some t => t_ids t | None => [] end.
Definition atxof (id : N) (al : list (N * N)) : N :=
  match alookup id al with Some a => a | None => 0 end.

Lemma free_page_inv txid id ov s s' : free_page txid id ov s = Ok s' ->
  1 < id /\ (forall x, In x (run id (ov + 1)) -> ~ In x (cache s)) /\
  free s' = free s /\ readers s' = readers s /\ allocs s' = aremove id (allocs s) /\
  aremove txid (pending s') = aremove txid (pending s) /\
  map fst (pending s') = map fst (pending s) ++ (match alookup txid (pending s) with Some _ => [] | None => [txid] end) /\
  exists lrb, alookup txid (pending s') =
    Some {| t_ids := tids txid s ++ map (fun x => (x, atxof id (allocs s))) (run id (ov + 1)); t_lrb := lrb |}.
Proof.
  unfold free_page. destruct (N.leb_spec id 1) as [|Hid]; [discriminate|].
  destruct (existsb _ _) eqn:Ex; [discriminate|]. cbv zeta. intros H. injection H as <-.
  cbn [free readers allocs pending].
  split; [exact Hid|]. split.
  { intros x Hx Hc. rewrite <- not_true_iff_false in Ex. apply Ex. apply existsb_exists.
    exists x. split; [exact Hx | now apply memN_in]. }
  split; [reflexivity|]. split; [reflexivity|]. split; [reflexivity|].
  unfold tids, atxof. destruct (alookup txid (pending s)) as [old|] eqn:Hl.
  - split; [apply aremove_replace|]. split; [rewrite keys_replace; now rewrite app_nil_r|].
    eexists. eapply alookup_replace. exact Hl.
  - split; [|split].
    + rewrite aremove_app. cbn [aremove]. rewrite N.eqb_refl. apply app_nil_r.
    + rewrite map_app. reflexivity.
    + eexists. rewrite alookup_app_none by exact Hl. cbn [alookup]. rewrite N.eqb_refl. reflexivity.
Qed.

Lemma free_page_tids txid id ov s s' : free_page txid id ov s = Ok s' ->
  tids txid s' = tids txid s ++ map (fun x => (x, atxof id (allocs s))) (run id (ov + 1)).
Proof.
  intros H. apply free_page_inv in H. destruct H as (_ & _ & _ & _ & _ & _ & _ & lrb & H).
  unfold tids at 1. rewrite H. reflexivity.
Qed.

Lemma free_page_keys_unique txid id ov s s' : free_page txid id ov s = Ok s' ->
  keys_unique (pending s) -> keys_unique (pending s').
Proof.
  intros H Hu. apply free_page_inv in H. destruct H as (_ & _ & _ & _ & _ & _ & Hk & _).
  unfold keys_unique in *. rewrite Hk. destruct (alookup txid (pending s)) eqn:E.
  - now rewrite app_nil_r.
  - apply alookup_none_keys in E. apply NoDup_snoc; assumption.
Qed.

(** * Part 3: the model's own operations pass the checkers *)

Theorem free_page_free_ok txid id ov s s' :
  free_page txid id ov s = Ok s' -> keys_unique (pending s) -> free_ok txid id ov s s' = true.
Proof.
  intros H Hu. unfold free_ok. rewrite !andb_true_iff. split; [split|].
  - destruct (free_page_free_unchanged _ _ _ _ _ H) as [-> _]. apply eqlN_rfl.
  - rewrite (perm_sortN_eq _ _ (free_page_pending _ _ _ _ _ Hu H)). apply eqlN_rfl.
  - apply forallb_forall. intros x Hx. apply existsb_exists.
    apply free_page_inv in H. destruct H as (_ & _ & _ & _ & _ & _ & _ & lrb & H).
    exists (txid, x, atxof id (allocs s)). cbn [fst snd]. rewrite !N.eqb_refl. split; [|reflexivity].
    unfold pend_pairs. apply in_flat_map. eexists. split; [apply alookup_in; exact H|].
    cbn [fst snd t_ids]. rewrite map_app, in_app_iff. right.
    rewrite map_map. cbn [fst snd]. apply in_map_iff. exists x. split; [reflexivity | exact Hx].
Qed.

Lemma pairs_filter_aremove txid l :
  map (fun t => snd (fst t)) (filter (fun t => negb (fst (fst t) =? txid)) (pend_pairs l))
  = pending_ids (aremove txid l).
Proof.
  induction l as [|[k v] l IH]; [reflexivity|].
  rewrite pend_pairs_cons, filter_app, map_app, IH. cbn [aremove fst snd].
  destruct (N.eqb_spec txid k) as [->|Hne].
  - rewrite filter_none; [reflexivity|]. intros x Hx. apply in_map_iff in Hx.
    destruct Hx as [pa [<- _]]. cbn [fst]. now rewrite N.eqb_refl.
  - rewrite filter_id.
    + rewrite pending_ids_cons. cbn [snd]. rewrite map_map. reflexivity.
    + intros x Hx. apply in_map_iff in Hx. destruct Hx as [pa [<- _]]. cbn [fst].
      destruct (N.eqb_spec k txid); [congruence | reflexivity].
Qed.

Lemma rollback_inv txid s s2 : rollback txid s = Ok s2 ->
  free s2 = free s /\ readers s2 = readers s /\ pending s2 = aremove txid (pending s) /\
  (forall pa, In pa (tids txid s) -> snd pa = txid -> txid = 0).
Proof.
  unfold rollback, tids. destruct (alookup txid (pending s)) as [t|] eqn:Hl.
  - destruct (existsb _ _) eqn:Ex; [discriminate|]. intros H. injection H as <-.
    cbn [free readers pending]. repeat split.
    intros pa Hin Hs. destruct (N.eqb_spec txid 0) as [|Hne]; [assumption|]. exfalso.
    rewrite <- not_true_iff_false in Ex. apply Ex. apply existsb_exists. exists pa.
    split; [exact Hin|]. rewrite Hs, N.eqb_refl. cbn [andb]. apply negb_true_iff.
    now apply N.eqb_neq.
  - intros H. injection H as <-. repeat split; [|intros pa []].
    symmetry. now apply aremove_notin.
Qed.

Theorem rollback_rollback_ok txid s s' : rollback txid s = Ok s' -> rollback_ok txid s s' = true.
Proof.
  intros H. apply rollback_inv in H. destruct H as (Hf & _ & Hp & _).
  unfold rollback_ok. rewrite Hf, Hp, pairs_filter_aremove, !eqlN_rfl. cbn [andb].
  apply negb_true_iff, not_true_iff_false. intros Hex. apply existsb_exists in Hex.
  destruct Hex as [e [Hin E]]. apply N.eqb_eq in E. apply in_aremove in Hin. tauto.
Qed.

(** * Part 1: a sequence of Frees by [txid], then Rollback(txid) *)

Definition frees_run (txid : N) (frees : list (N * N)) (r : res fl) : res fl :=
  fold_left (fun r f => match r with Ok s0 => free_page txid (fst f) (snd f) s0 | e => e end) frees r.

Lemma frees_run_panic txid fs : frees_run txid fs Panic = Panic.
Proof. induction fs as [|f fs IH]; [reflexivity | exact IH]. Qed.
Lemma frees_run_oof txid fs : frees_run txid fs OutOfFuel = OutOfFuel.
Proof. induction fs as [|f fs IH]; [reflexivity | exact IH]. Qed.

Lemma frees_run_cons txid f fs s s1 : frees_run txid (f :: fs) (Ok s) = Ok s1 ->
  exists s', free_page txid (fst f) (snd f) s = Ok s' /\ frees_run txid fs (Ok s') = Ok s1.
Proof.
  unfold frees_run. cbn [fold_left]. destruct (free_page txid (fst f) (snd f) s) as [s'| |] eqn:E; intros H.
  - eauto.
  - fold (frees_run txid fs Panic) in H. rewrite frees_run_panic in H. discriminate.
  - fold (frees_run txid fs OutOfFuel) in H. rewrite frees_run_oof in H. discriminate.
Qed.

Lemma frees_run_inv txid : forall fs s s1, frees_run txid fs (Ok s) = Ok s1 ->
  free s1 = free s /\ readers s1 = readers s /\ aremove txid (pending s1) = aremove txid (pending s)
  /\ (keys_unique (pending s) -> keys_unique (pending s1))
  /\ (fs <> [] -> exists t, alookup txid (pending s1) = Some t).
Proof.
  induction fs as [|f fs IH]; intros s s1 H.
  - injection H as <-. repeat split; tauto.
  - apply frees_run_cons in H. destruct H as [s' [H1 H2]].
    destruct (IH _ _ H2) as (E1 & E2 & E3 & E4 & E5).
    pose proof (free_page_keys_unique _ _ _ _ _ H1) as Hk.
    apply free_page_inv in H1. destruct H1 as (_ & _ & F1 & F2 & _ & F3 & _ & lrb & F4).
    split; [congruence|]. split; [congruence|]. split; [congruence|]. split; [tauto|].
    intros _. destruct fs as [|g fs].
    + injection H2 as <-. eauto.
    + apply E5. discriminate.
Qed.

Definition inrun (f : N * N) (p : N) : bool := (fst f <=? p) && (p <=? fst f + snd f).

Lemma inrun_spec f p : inrun f p = true <-> In p (run (fst f) (snd f + 1)).
Proof. unfold inrun. rewrite run_in, andb_true_iff, !N.leb_le. lia. Qed.

Lemma inrun_head f : inrun f (fst f) = true.
Proof. unfold inrun. apply andb_true_iff. rewrite !N.leb_le. lia. Qed.

Lemma tids_in_cache txid s p : In p (map fst (tids txid s)) -> In p (cache s).
Proof.
  unfold tids, cache. destruct (alookup txid (pending s)) as [t|] eqn:E; [|intros []].
  intros H. apply in_or_app. right. unfold pending_ids. apply in_flat_map. exists (txid, t).
  split; [now apply alookup_in | exact H].
Qed.

(** a page already freed by [txid] stays in its list and cannot be freed again *)
Lemma later_disjoint txid p : forall fs s s1, frees_run txid fs (Ok s) = Ok s1 ->
  In p (map fst (tids txid s)) ->
  In p (map fst (tids txid s1)) /\ forall g, In g fs -> inrun g p = false.
Proof.
  induction fs as [|f fs IH]; intros s s1 H Hp.
  - injection H as <-. split; [exact Hp | intros g []].
  - apply frees_run_cons in H. destruct H as [s' [H1 H2]].
    pose proof (free_page_tids _ _ _ _ _ H1) as Ht.
    assert (Hp' : In p (map fst (tids txid s'))).
    { rewrite Ht, map_app, in_app_iff. now left. }
    destruct (IH _ _ H2 Hp') as [Q1 Q2]. split; [exact Q1|].
    intros g [<-|Hg]; [|now apply Q2].
    destruct (inrun f p) eqn:E; [|reflexivity]. exfalso. apply inrun_spec in E.
    apply free_page_inv in H1. destruct H1 as (_ & Hd & _). apply (Hd p E).
    now apply (tids_in_cache txid).
Qed.

Lemma tids_mono txid pa : forall fs s s1, frees_run txid fs (Ok s) = Ok s1 ->
  In pa (tids txid s) -> In pa (tids txid s1).
Proof.
  induction fs as [|f fs IH]; intros s s1 H Hp.
  - injection H as <-. exact Hp.
  - apply frees_run_cons in H. destruct H as [s' [H1 H2]]. apply (IH _ _ H2).
    rewrite (free_page_tids _ _ _ _ _ H1), in_app_iff. now left.
Qed.

(** ** what Rollback does to [allocs] *)

Definition aset0 (al : list (N * N)) (pa : N * N) : list (N * N) :=
  if snd pa =? 0 then al else aset (fst pa) (snd pa) al.
Definition restored (l al : list (N * N)) : list (N * N) := fold_left aset0 l al.

Lemma restored_cons pa l al : restored (pa :: l) al = restored l (aset0 al pa).
Proof. reflexivity. Qed.

Lemma restored_app l l' al : restored (l ++ l') al = restored l' (restored l al).
Proof. apply fold_left_app. Qed.

Lemma restored_congr p l : forall al al', alookup p al = alookup p al' ->
  alookup p (restored l al) = alookup p (restored l al').
Proof.
  induction l as [|pa l IH]; intros al al' H; [exact H|]. rewrite !restored_cons. apply IH.
  unfold aset0. destruct (snd pa =? 0); [exact H|]. rewrite !alookup_aset.
  destruct (p =? fst pa); [reflexivity | exact H].
Qed.

Lemma restored_notin p l : forall al, ~ In p (map fst l) -> alookup p (restored l al) = alookup p al.
Proof.
  induction l as [|pa l IH]; intros al H; [reflexivity|]. rewrite restored_cons, IH.
  - unfold aset0. destruct (snd pa =? 0); [reflexivity|]. rewrite alookup_aset.
    destruct (N.eqb_spec p (fst pa)) as [->|]; [|reflexivity]. exfalso. apply H. now left.
  - intros Hin. apply H. now right.
Qed.

Lemma restored_zero xs al : restored (map (fun x => (x, 0)) xs) al = al.
Proof. induction xs as [|x xs IH]; [reflexivity|]. cbn [map]. rewrite restored_cons. exact IH. Qed.

Lemma restored_const p a xs : a <> 0 -> In p xs -> forall al,
  alookup p (restored (map (fun x => (x, a)) xs) al) = Some a.
Proof.
  intros Ha. induction xs as [|x xs IH]; intros Hin al; [destruct Hin|].
  cbn [map]. rewrite restored_cons.
  destruct (in_dec N.eq_dec p xs) as [Hi|Hn]; [now apply IH|].
  destruct Hin as [->|Hi]; [|contradiction]. rewrite restored_notin.
  - unfold aset0. cbn [fst snd]. destruct (N.eqb_spec a 0); [contradiction|].
    rewrite alookup_aset, N.eqb_refl. reflexivity.
  - rewrite map_map. cbn [fst]. now rewrite map_id.
Qed.

Lemma keys_unique_restored l : forall al, keys_unique al -> keys_unique (restored l al).
Proof.
  induction l as [|pa l IH]; intros al H; [exact H|]. rewrite restored_cons. apply IH.
  unfold aset0. destruct (snd pa =? 0); [exact H | now apply keys_unique_aset].
Qed.

Definition strip (txid : N) (o : option N) : option N :=
  match o with Some a => if a =? txid then None else Some a | None => None end.

Lemma alookup_filter_strip txid (l : list (N * N)) p : keys_unique l ->
  alookup p (filter (fun e => negb (snd e =? txid)) l) = strip txid (alookup p l).
Proof.
  unfold keys_unique. induction l as [|[k v] l IH]; [reflexivity|]. cbn [map fst]. intros H.
  inversion H as [|? ? Hn Hu]; subst. cbn [filter snd alookup].
  destruct (v =? txid) eqn:Ev; cbn [negb].
  - rewrite (IH Hu). destruct (N.eqb_spec p k) as [->|Hne]; [|reflexivity].
    rewrite (alookup_notin _ _ Hn). cbn [strip]. now rewrite Ev.
  - cbn [alookup]. destruct (N.eqb_spec p k) as [->|Hne]; [cbn [strip]; now rewrite Ev|].
    exact (IH Hu).
Qed.

Lemma rollback_allocs txid s s2 t : rollback txid s = Ok s2 -> alookup txid (pending s) = Some t ->
  allocs s2 = filter (fun e => negb (snd e =? txid)) (restored (t_ids t) (allocs s)).
Proof.
  unfold rollback. intros H Hl. rewrite Hl in H. destruct (existsb _ _); [discriminate|].
  injection H as <-. reflexivity.
Qed.

Definition nozero (al : list (N * N)) : Prop := forall e, In e al -> snd e <> 0.

Lemma nozero_aremove k al : nozero al -> nozero (aremove k al).
Proof. intros H e He. apply in_aremove in He. apply H. tauto. Qed.

Lemma find_none_all {A} (h : A -> bool) l : (forall x, In x l -> h x = false) -> find h l = None.
Proof.
  induction l as [|x l IH]; intros H; [reflexivity|]. cbn [find]. rewrite (H x) by now left.
  apply IH. intros y Hy. apply H. now right.
Qed.

(** [B txid s p]: the alloc record page [p] would have after Rollback's restore loop (before the
    final sweep that deletes the records owned by [txid]) *)
Definition B (txid : N) (s : fl) (p : N) : option N := alookup p (restored (tids txid s) (allocs s)).

Definition G (txid : N) (fs : list (N * N)) (s : fl) (p : N) : option N :=
  match find (fun f => inrun f p) fs with
  | Some f => match alookup (fst f) (allocs s) with Some a => Some a | None => B txid s p end
  | None => B txid s p
  end.

Lemma frees_B txid p : forall fs s s1, nozero (allocs s) -> frees_run txid fs (Ok s) = Ok s1 ->
  B txid s1 p = G txid fs s p.
Proof.
  induction fs as [|f fs IH]; intros s s1 Hz H.
  - injection H as <-. reflexivity.
  - apply frees_run_cons in H. destruct H as [s' [H1 H2]].
    pose proof (free_page_tids _ _ _ _ _ H1) as Ht.
    pose proof (free_page_inv _ _ _ _ _ H1) as (_ & Hd & _ & _ & Hal & _).
    assert (Hz' : nozero (allocs s')) by (rewrite Hal; now apply nozero_aremove).
    rewrite (IH _ _ Hz' H2). clear IH.
    assert (Hhead : In (fst f) (map fst (tids txid s'))).
    { rewrite Ht, map_app, in_app_iff. right. rewrite map_map. cbn [fst]. rewrite map_id.
      apply inrun_spec, inrun_head. }
    unfold G. cbn [find]. destruct (inrun f p) eqn:Ein.
    + (* p belongs to the run freed first *)
      assert (Hp' : In p (map fst (tids txid s'))).
      { rewrite Ht, map_app, in_app_iff. right. rewrite map_map. cbn [fst]. rewrite map_id.
        now apply inrun_spec. }
      destruct (later_disjoint _ _ _ _ _ H2 Hp') as [_ Hno].
      rewrite (find_none_all _ _ Hno).
      assert (Hnt : ~ In p (map fst (tids txid s))).
      { intros Hin. apply (Hd p); [now apply inrun_spec | now apply (tids_in_cache txid)]. }
      unfold B. rewrite Ht, restored_app, Hal. unfold atxof.
      destruct (alookup (fst f) (allocs s)) as [a|] eqn:Ea.
      * apply restored_const; [|now apply inrun_spec].
        apply alookup_in in Ea. exact (Hz _ Ea).
      * rewrite restored_zero. rewrite (aremove_notin _ _ Ea). reflexivity.
    + (* p is elsewhere *)
      assert (Hne : p <> fst f).
      { intros ->. rewrite inrun_head in Ein. discriminate. }
      assert (HB : B txid s' p = B txid s p).
      { unfold B. rewrite Ht, restored_app, Hal. rewrite restored_notin.
        - apply restored_congr. now apply alookup_aremove_ne.
        - rewrite map_map. cbn [fst]. rewrite map_id. intros Hin. apply inrun_spec in Hin. congruence. }
      destruct (find (fun f0 => inrun f0 p) fs) as [g|] eqn:Ef; [|exact HB].
      apply find_some in Ef. destruct Ef as [Hg _].
      destruct (later_disjoint _ _ _ _ _ H2 Hhead) as [_ Hno]. specialize (Hno g Hg).
      assert (Hgne : fst g <> fst f).
      { intros E. rewrite <- E, inrun_head in Hno. discriminate. }
      rewrite Hal, (alookup_aremove_ne _ _ _ Hgne), HB. reflexivity.
Qed.

(** ** main results *)

(** Rollback undoes the Frees of the transaction on free / pending / readers.  (No uniqueness
    hypothesis is needed for this part.) *)
Theorem frees_then_rollback_gen txid frees s s1 s2 :
  alookup txid (pending s) = None ->
  frees_run txid frees (Ok s) = Ok s1 ->
  rollback txid s1 = Ok s2 ->
  free s2 = free s /\ pending s2 = pending s /\ readers s2 = readers s.
Proof.
  intros Hl H1 H2. apply frees_run_inv in H1. destruct H1 as (E1 & E2 & E3 & _).
  apply rollback_inv in H2. destruct H2 as (F1 & F2 & F3 & _).
  split; [congruence|]. split; [|congruence].
  rewrite F3, E3. now apply aremove_notin.
Qed.

(** the statement as asked *)
Theorem frees_then_rollback : forall txid frees s s1 s2,
  keys_unique (pending s) -> alookup txid (pending s) = None ->
  fold_left (fun r f => match r with Ok s0 => free_page txid (fst f) (snd f) s0 | e => e end) frees (Ok s) = Ok s1 ->
  rollback txid s1 = Ok s2 ->
  free s2 = free s /\ pending s2 = pending s /\ readers s2 = readers s.
Proof. intros txid frees s s1 s2 _. apply frees_then_rollback_gen. Qed.

(** every alloctx recorded by the Frees comes from [allocs s] (or is 0 = unknown) *)
Lemma tids_origin txid pa : forall fs s s1, frees_run txid fs (Ok s) = Ok s1 -> In pa (tids txid s1) ->
  In pa (tids txid s) \/ snd pa = 0 \/ exists f, In f fs /\ alookup (fst f) (allocs s) = Some (snd pa).
Proof.
  induction fs as [|f fs IH]; intros s s1 H Hin.
  - injection H as <-. now left.
  - apply frees_run_cons in H. destruct H as [s' [H1 H2]].
    pose proof (free_page_tids _ _ _ _ _ H1) as Ht.
    pose proof (free_page_inv _ _ _ _ _ H1) as (_ & _ & _ & _ & Hal & _).
    destruct (IH _ _ H2 Hin) as [Q|[Q|[g [Hg Q]]]].
    + rewrite Ht, in_app_iff in Q. destruct Q as [Q|Q]; [now left|]. right.
      apply in_map_iff in Q. destruct Q as [x [<- _]]. cbn [snd]. unfold atxof.
      destruct (alookup (fst f) (allocs s)) as [a|] eqn:E; [|now left].
      right. exists f. split; [now left | exact E].
    + right. now left.
    + right. right. exists g. split; [now right|]. rewrite Hal in Q.
      now apply alookup_aremove_some in Q.
Qed.

(** ... and every Free leaves the record of its first page in the list *)
Lemma tids_heads txid : forall fs s s1, frees_run txid fs (Ok s) = Ok s1 ->
  forall f, In f fs -> In (fst f, atxof (fst f) (allocs s)) (tids txid s1).
Proof.
  induction fs as [|f fs IH]; intros s s1 H g Hg; [destruct Hg|].
  apply frees_run_cons in H. destruct H as [s' [H1 H2]].
  pose proof (free_page_tids _ _ _ _ _ H1) as Ht.
  pose proof (free_page_inv _ _ _ _ _ H1) as (_ & _ & _ & _ & Hal & _).
  destruct Hg as [<-|Hg].
  - apply (tids_mono _ _ _ _ _ H2). rewrite Ht, in_app_iff. right.
    apply in_map_iff. exists (fst f). split; [reflexivity|]. apply inrun_spec, inrun_head.
  - pose proof (IH _ _ H2 g Hg) as Q.
    assert (Hhead : In (fst f) (map fst (tids txid s'))).
    { rewrite Ht, map_app, in_app_iff. right. rewrite map_map. cbn [fst]. rewrite map_id.
      apply inrun_spec, inrun_head. }
    destruct (later_disjoint _ _ _ _ _ H2 Hhead) as [_ Hno]. specialize (Hno g Hg).
    assert (Hgne : fst g <> fst f).
    { intros E. rewrite <- E, inrun_head in Hno. discriminate. }
    unfold atxof in *. rewrite Hal, (alookup_aremove_ne _ _ _ Hgne) in Q. exact Q.
Qed.

(** Rollback panics exactly when one of the freed pages had been allocated by the same
    transaction (model of the branch the pinned code mishandles). *)
Theorem frees_then_rollback_no_panic txid frees s s1 :
  alookup txid (pending s) = None ->
  frees_run txid frees (Ok s) = Ok s1 ->
  (forall f, In f frees -> alookup (fst f) (allocs s) <> Some txid) ->
  exists s2, rollback txid s1 = Ok s2.
Proof.
  intros Hl H Hno. unfold rollback.
  destruct (alookup txid (pending s1)) as [t|] eqn:E; [|eauto].
  destruct (existsb _ _) eqn:Ex; [|eauto]. exfalso.
  apply existsb_exists in Ex. destruct Ex as [pa [Hin Hc]]. apply andb_true_iff in Hc.
  destruct Hc as [C1 C2]. apply N.eqb_eq in C1. apply negb_true_iff, N.eqb_neq in C2.
  assert (Hin' : In pa (tids txid s1)) by (unfold tids; now rewrite E).
  destruct (tids_origin _ _ _ _ _ H Hin') as [Q|[Q|[f [Hf Q]]]].
  - unfold tids in Q. rewrite Hl in Q. destruct Q.
  - contradiction.
  - apply (Hno f Hf). congruence.
Qed.

Theorem frees_then_rollback_panics txid frees s s1 f :
  frees_run txid frees (Ok s) = Ok s1 ->
  In f frees -> alookup (fst f) (allocs s) = Some txid -> txid <> 0 ->
  rollback txid s1 = Panic.
Proof.
  intros H Hf Ha Hne. pose proof (tids_heads _ _ _ _ H f Hf) as Q. unfold atxof in Q. rewrite Ha in Q.
  unfold rollback. unfold tids in Q. destruct (alookup txid (pending s1)) as [t|]; [|destruct Q].
  assert (Ex : existsb (fun pa : N * N => (snd pa =? txid) && negb (snd pa =? 0)) (t_ids t) = true).
  { apply existsb_exists. exists (fst f, txid). split; [exact Q|]. cbn [snd]. rewrite N.eqb_refl.
    cbn [andb]. apply negb_true_iff. now apply N.eqb_neq. }
  now rewrite Ex.
Qed.

(** The alloc records after Free* ; Rollback, exactly.  A page of a freed run gets the record of
    the run's FIRST page (Free stores one alloctx for the whole run and Rollback writes it back for
    every page of the run); every other record is unchanged; finally records owned by [txid] are
    swept.  With no Free at all Rollback returns early and sweeps nothing, hence [frees <> []]. *)
Theorem frees_then_rollback_allocs txid frees s s1 s2 :
  keys_unique (allocs s) -> nozero (allocs s) ->
  alookup txid (pending s) = None -> frees <> [] ->
  frees_run txid frees (Ok s) = Ok s1 ->
  rollback txid s1 = Ok s2 ->
  forall p, alookup p (allocs s2) =
    strip txid (match find (fun f => inrun f p) frees with
                | Some f => match alookup (fst f) (allocs s) with
                            | Some a => Some a
                            | None => alookup p (allocs s) end
                | None => alookup p (allocs s) end).
Proof.
  intros Hu Hz Hl Hne H1 H2 p.
  pose proof (frees_B txid p _ _ _ Hz H1) as HB.
  assert (Hku : keys_unique (allocs s1)).
  { clear -Hu H1. revert s Hu H1. induction frees as [|f fs IH]; intros s Hu H1.
    - injection H1 as <-. exact Hu.
    - apply frees_run_cons in H1. destruct H1 as [s' [H1 H2]]. apply (IH s'); [|exact H2].
      apply free_page_inv in H1. destruct H1 as (_ & _ & _ & _ & -> & _).
      now apply keys_unique_aremove. }
  destruct (frees_run_inv _ _ _ _ H1) as (_ & _ & _ & _ & Hex). destruct (Hex Hne) as [t Ht].
  rewrite (rollback_allocs _ _ _ _ H2 Ht).
  rewrite alookup_filter_strip by now apply keys_unique_restored.
  f_equal. unfold B, tids in HB. rewrite Ht in HB. rewrite HB. unfold G, B, tids. rewrite Hl.
  reflexivity.
Qed.

(** Corollary: if no alloc record of [s] is owned by [txid] (it allocated nothing yet), then
    every page that is not an overflow page of a freed run has its alloc record restored. *)
Theorem frees_then_rollback_allocs_restored txid frees s s1 s2 :
  keys_unique (allocs s) -> nozero (allocs s) ->
  (forall e, In e (allocs s) -> snd e <> txid) ->
  alookup txid (pending s) = None ->
  frees_run txid frees (Ok s) = Ok s1 ->
  rollback txid s1 = Ok s2 ->
  forall p, (forall f, In f frees -> ~ (fst f < p <= fst f + snd f)) ->
  alookup p (allocs s2) = alookup p (allocs s).
Proof.
  intros Hu Hz Hown Hl H1 H2 p Hp.
  assert (Hstrip : forall k, strip txid (alookup k (allocs s)) = alookup k (allocs s)).
  { intros k. destruct (alookup k (allocs s)) as [a|] eqn:E; [|reflexivity]. cbn [strip].
    apply alookup_in in E. apply Hown in E. cbn [snd] in E.
    destruct (N.eqb_spec a txid); [contradiction | reflexivity]. }
  destruct frees as [|f0 fs0].
  - injection H1 as <-. unfold rollback in H2. rewrite Hl in H2. injection H2 as <-. reflexivity.
  - assert (Hne : f0 :: fs0 <> []) by discriminate.
    rewrite (frees_then_rollback_allocs _ _ _ _ _ Hu Hz Hl Hne H1 H2 p).
    destruct (find _ _) as [f|] eqn:Ef; [|apply Hstrip].
    apply find_some in Ef. destruct Ef as [Hf Hin].
    assert (p = fst f).
    { specialize (Hp f Hf). unfold inrun in Hin. apply andb_true_iff in Hin.
      rewrite !N.leb_le in Hin. lia. }
    subst p. rewrite <- (Hstrip (fst f)) at 2. destruct (alookup (fst f) (allocs s)); reflexivity.
Qed.

(** In particular for Frees of single pages (overflow 0). *)
Corollary frees_then_rollback_allocs_single txid frees s s1 s2 :
  keys_unique (allocs s) -> nozero (allocs s) ->
  (forall e, In e (allocs s) -> snd e <> txid) ->
  alookup txid (pending s) = None ->
  (forall f, In f frees -> snd f = 0) ->
  frees_run txid frees (Ok s) = Ok s1 ->
  rollback txid s1 = Ok s2 ->
  forall p, alookup p (allocs s2) = alookup p (allocs s).
Proof.
  intros Hu Hz Hown Hl Hov H1 H2 p.
  apply (frees_then_rollback_allocs_restored _ _ _ _ _ Hu Hz Hown Hl H1 H2).
  intros f Hf. rewrite (Hov f Hf). lia.
Qed.

(** ... and an overflow page of a freed run ends up with the record of the run's first page. *)
Corollary frees_then_rollback_allocs_overflow txid frees s s1 s2 f a :
  keys_unique (allocs s) -> nozero (allocs s) ->
  alookup txid (pending s) = None ->
  frees_run txid frees (Ok s) = Ok s1 ->
  rollback txid s1 = Ok s2 ->
  In f frees -> alookup (fst f) (allocs s) = Some a ->
  forall p, fst f <= p <= fst f + snd f -> alookup p (allocs s2) = Some a.
Proof.
  intros Hu Hz Hl H1 H2 Hf Ha p Hp.
  assert (Hne : frees <> []) by (intros ->; destruct Hf).
  (* a <> txid because Rollback did not panic *)
  assert (Hat : a <> txid).
  { intros ->. assert (txid <> 0) by (apply alookup_in in Ha; exact (Hz _ Ha)).
    rewrite (frees_then_rollback_panics _ _ _ _ _ H1 Hf Ha) in H2 by assumption. discriminate. }
  rewrite (frees_then_rollback_allocs _ _ _ _ _ Hu Hz Hl Hne H1 H2 p).
  assert (Hinr : inrun f p = true).
  { unfold inrun. apply andb_true_iff. rewrite !N.leb_le. lia. }
  destruct (find (fun f0 => inrun f0 p) frees) as [g|] eqn:Ef.
  - apply find_some in Ef. destruct Ef as [Hg Hgp].
    (* runs are pairwise disjoint, so g and f have the same alloctx: show via the head record *)
    assert (fst g = fst f \/ fst g <> fst f) as [E|E] by lia.
    + rewrite E, Ha. cbn [strip]. destruct (N.eqb_spec a txid); [contradiction | reflexivity].
    + exfalso. revert E. clear -H1 Hf Hg Hgp Hinr.
      revert s H1. induction frees as [|h fs IH]; intros s H1; [destruct Hf|].
      apply frees_run_cons in H1. destruct H1 as [s' [H1 H2]].
      pose proof (free_page_tids _ _ _ _ _ H1) as Ht.
      assert (Hall : forall q, inrun h q = true -> forall k, In k fs -> inrun k q = false).
      { intros q Hq. assert (Hq' : In q (map fst (tids txid s'))).
        { rewrite Ht, map_app, in_app_iff. right. rewrite map_map. cbn [fst]. rewrite map_id.
          now apply inrun_spec. }
        apply (later_disjoint _ _ _ _ _ H2 Hq'). }
      destruct Hf as [<-|Hf]; destruct Hg as [<-|Hg].
      * congruence.
      * rewrite (Hall p Hinr g Hg) in Hgp. discriminate.
      * rewrite (Hall p Hgp f Hf) in Hinr. discriminate.
      * now apply (IH Hf Hg s').
  - exfalso. apply (find_none _ _ Ef) in Hf. cbv beta in Hf. congruence.
Qed.

(** The naive statement "Rollback restores [allocs]" is FALSE for a run with overflow pages:
    page 5 (allocated by tx 1) is freed with one overflow page by tx 2; after Rollback(2) page 6 has
    an alloc record it never had.  (shared.go does the same: Free stores allocs[p.Id()] for every
    page of the run and Rollback writes `t.allocs[pgid] = tx` for each of them.) *)
Example rollback_allocs_overflow_not_restored :
  let s := {| free := []; pending := []; allocs := [(5, 1)]; readers := [] |} in
  exists s1 s2, free_page 2 5 1 s = Ok s1 /\ rollback 2 s1 = Ok s2
    /\ alookup 6 (allocs s) = None /\ alookup 6 (allocs s2) = Some 1
    /\ allocs s2 = [(6, 1); (5, 1)].
Proof. vm_compute. do 2 eexists. repeat split; reflexivity. Qed.

(** Rollback by the transaction that also allocated the page: the model says Panic. *)
Example rollback_own_alloc_panics :
  let s := {| free := []; pending := []; allocs := [(5, 2)]; readers := [] |} in
  exists s1, free_page 2 5 0 s = Ok s1 /\ rollback 2 s1 = Panic.
Proof. vm_compute. eexists. split; reflexivity. Qed.

(** With no Free at all Rollback returns early: records owned by [txid] are NOT swept. *)
Example rollback_without_free_keeps_own_allocs :
  let s := {| free := []; pending := []; allocs := [(5, 2)]; readers := [] |} in
  rollback 2 s = Ok s.
Proof. vm_compute. reflexivity. Qed.

(** * [release_ok] accepts the model's ReleasePendingPages (non-vacuity) *)

Lemma NoDup_app_disjoint {A} (a b : list A) x : NoDup (a ++ b) -> In x a -> In x b -> False.
Proof.
  induction a as [|y a IH]; cbn [app]; intros Hn Ha Hb; [destruct Ha|].
  inversion Hn as [|? ? Hy Hn']; subst. destruct Ha as [->|Ha].
  - apply Hy. apply in_or_app. now right.
  - now apply IH.
Qed.

Theorem release_pending_pages_release_ok s :
  NoDup (pending_ids (pending s)) ->
  (forall r, In r (readers s) -> r < MAXU64) ->
  (forall e, In e (pending s) -> fst e < MAXU64) ->
  release_ok s (release_pending_pages s) = true.
Proof.
  intros Hnd Hr He.
  destruct (release_pending_pages_spec s) as (freed & _ & _ & _ & Pf & Pp & Pc & _ & _ & Hsafe & Hcompl).
  destruct (Hsafe Hr) as [Hsafe1 _]. clear Hsafe.
  set (s' := release_pending_pages s) in *.
  unfold release_ok. rewrite !andb_true_iff. split; [split; [split|]|].
  - rewrite (perm_sortN_eq _ _ Pc). apply eqlN_rfl.
  - apply forallb_forall. intros x Hx. apply memN_in.
    eapply Permutation_in; [apply Permutation_sym; exact Pf|]. apply in_or_app. now left.
  - apply forallb_forall. intros [[tid p] a] Hin.
    destruct (memN p (filter (fun x => negb (memN x (free s))) (free s'))) eqn:Em; [|reflexivity].
    cbn [negb orb]. apply negb_true_iff, not_true_iff_false. intros Hex.
    apply existsb_exists in Hex. destruct Hex as [r [Hrr Hv]].
    apply memN_in, filter_In in Em. destruct Em as [Hs' Hns].
    apply negb_true_iff, memN_false in Hns.
    assert (Hfr : In p freed).
    { apply (Permutation_in _ Pf), in_app_or in Hs'. tauto. }
    assert (Hnot : ~ In (tid, p, a) (pend_pairs (pending s'))).
    { intros Hin'. apply (NoDup_app_disjoint (pending_ids (pending s')) freed p).
      - eapply Permutation_NoDup; [exact Pp | exact Hnd].
      - apply pending_ids_in. eauto.
      - exact Hfr. }
    pose proof (Hsafe1 tid p a Hin Hnot r Hrr) as Hn. rewrite needs_visible_to in Hn. congruence.
  - destruct (readers s) eqn:Er; [|reflexivity]. rewrite Hcompl; [reflexivity | reflexivity | exact He].
Qed.
