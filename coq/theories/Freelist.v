(** Freelist: executable model of internal/freelist (shared.go, array.go, hashmap.go).
    Definitions only; proofs are in FreelistProofs.v.

    State.  [free] is the sorted list of free page ids.  For the array backend this is literally
    [array.ids].  For the hashmap backend it is [freePageIds()], the expansion of the span maps; the
    maps always hold the maximal runs of that set (Init builds maximal runs, mergeWithExistingSpan
    re-merges, Allocate splits a run), so the backend's only extra freedom is WHICH run Allocate takes
    (Go map iteration order) - an input [choice] of the model.
    [pending] maps a txid to the pages it freed, each with the txid that allocated it (0 = unknown),
    plus [lastReleaseBegin].  [allocs] is the page -> allocating txid map.  The membership cache of
    the Go code is always (free ++ pending ids) and is derived here. *)
From Bbolt Require Import Base.

Record txp := { t_ids : list (N * N); t_lrb : N }.

Record fl := {
  free    : list N;
  pending : list (N * txp);          (* keys unique *)
  allocs  : list (N * N);            (* keys unique *)
  readers : list N
}.

Definition fl_empty : fl := {| free := []; pending := []; allocs := []; readers := [] |}.

Definition pending_ids (p : list (N * txp)) : list N :=
  flat_map (fun e => map fst (t_ids (snd e))) p.

Definition cache (s : fl) : list N := free s ++ pending_ids (pending s).
Definition freed (s : fl) (id : N) : bool := memN id (cache s).

Definition free_count (s : fl) : N := N.of_nat (length (free s)).
Definition pending_count (s : fl) : N := N.of_nat (length (pending_ids (pending s))).
Definition count (s : fl) : N := free_count s + pending_count s.

(** association-list helpers *)
Fixpoint alookup {A} (k : N) (l : list (N * A)) : option A :=
  match l with [] => None | (k', v) :: r => if k =? k' then Some v else alookup k r end.
Fixpoint aremove {A} (k : N) (l : list (N * A)) : list (N * A) :=
  match l with [] => [] | (k', v) :: r => if k =? k' then aremove k r else (k', v) :: aremove k r end.
Definition aset {A} (k : N) (v : A) (l : list (N * A)) : list (N * A) := (k, v) :: aremove k l.

(** Init(ids): the array keeps the slice as given; Read sorts first.  reindex makes cache derived. *)
Definition init (ids : list N) (s : fl) : fl :=
  {| free := ids; pending := pending s; allocs := allocs s; readers := readers s |}.

(** array.Allocate: the scan with [initial]/[previd]; returns (initial, index of the run's last element). *)
Fixpoint scan (ids : list N) (n : N) (i : nat) (initial previd : N) : res (N * nat) :=
  match ids with
  | [] => Ok (0, O)
  | id :: rest =>
      if id <=? 1 then Panic else
      let initial' := if (previd =? 0) || negb (id - previd =? 1) then id else initial in
      if (id - initial') + 1 =? n then Ok (initial', i)
      else scan rest n (S i) initial' id
  end.

Definition remove_run (ids : list N) (i : nat) (n : nat) : list N :=
  firstn (S i - n) ids ++ skipn (S i) ids.

Definition allocate_array (txid n : N) (s : fl) : res (N * fl) :=
  match free s with
  | [] => Ok (0, s)
  | _ =>
    let? r := scan (free s) n 0 0 0 in
    let '(p, i) := r in
    if p =? 0 then Ok (0, s) else
    Ok (p, {| free := remove_run (free s) i (N.to_nat n); pending := pending s;
              allocs := aset p txid (allocs s); readers := readers s |})
  end.

(** maximal runs (start, size) of a sorted id list: what the hashmap's three maps describe *)
Fixpoint spans_aux (start size : N) (l : list N) : list (N * N) :=
  match l with
  | [] => [(start, size)]
  | x :: r => if x =? start + size then spans_aux start (size + 1) r
              else (start, size) :: spans_aux x 1 r
  end.
Definition spans (l : list N) : list (N * N) :=
  match l with [] => [] | x :: r => spans_aux x 1 r end.

Definition remove_ids (rm l : list N) : list N := filter (fun x => negb (memN x rm)) l.

(** hashMap.Allocate: an exact-size span if one exists, else any larger span; [choice] is the start of
    the span the map iteration picked.  [None] from [hm_admissible] = the choice is not one the code can make. *)
Definition hm_admissible (free : list N) (n choice : N) : bool :=
  let sp := spans free in
  if existsb (fun s => snd s =? n) sp
  then existsb (fun s => (fst s =? choice) && (snd s =? n)) sp
  else existsb (fun s => (fst s =? choice) && (n <? snd s)) sp.

Definition hm_can_allocate (free : list N) (n : N) : bool :=
  existsb (fun s => n <=? snd s) (spans free).

Definition allocate_hm (txid n choice : N) (s : fl) : option (N * fl) :=
  if n =? 0 then (if choice =? 0 then Some (0, s) else None) else
  if negb (hm_can_allocate (free s) n) then (if choice =? 0 then Some (0, s) else None) else
  if hm_admissible (free s) n choice then
    Some (choice, {| free := remove_ids (run choice n) (free s); pending := pending s;
                     allocs := aset choice txid (allocs s); readers := readers s |})
  else None.

(** shared.Free *)
Definition free_page (txid id ov : N) (s : fl) : res fl :=
  if id <=? 1 then Panic else
  let ids := run id (ov + 1) in
  if existsb (fun x => memN x (cache s)) ids then Panic else
  let old := match alookup txid (pending s) with Some t => t | None => {| t_ids := []; t_lrb := 0 |} end in
  let atx := match alookup id (allocs s) with Some a => a | None => 0 end in
  let newt := {| t_ids := t_ids old ++ map (fun x => (x, atx)) ids; t_lrb := t_lrb old |} in
  Ok {| free := free s;
        pending := match alookup txid (pending s) with
                   | Some _ => map (fun e => if fst e =? txid then (txid, newt) else e) (pending s)
                   | None => pending s ++ [(txid, newt)] end;
        allocs := aremove id (allocs s); readers := readers s |}.

(** shared.Rollback *)
Definition rollback (txid : N) (s : fl) : res fl :=
  match alookup txid (pending s) with
  | None => Ok s
  | Some t =>
    if existsb (fun pa => (snd pa =? txid) && negb (snd pa =? 0)) (t_ids t) then Panic else
    let restored := fold_left (fun al pa => if snd pa =? 0 then al else aset (fst pa) (snd pa) al) (t_ids t) (allocs s) in
    Ok {| free := free s; pending := aremove txid (pending s);
          allocs := filter (fun e => negb (snd e =? txid)) restored; readers := readers s |}
  end.

Definition add_reader (tid : N) (s : fl) : fl :=
  {| free := free s; pending := pending s; allocs := allocs s; readers := readers s ++ [tid] |}.

Fixpoint remove_first (x : N) (l : list N) : list N :=
  match l with [] => [] | y :: r => if x =? y then r else y :: remove_first x r end.
Definition remove_reader (tid : N) (s : fl) : fl :=
  {| free := free s; pending := pending s; allocs := allocs s; readers := remove_first tid (readers s) |}.

(** release(txid): every pending list with tid <= txid moves to free *)
Definition release (p : list (N * txp)) (txid : N) : list (N * txp) * list N :=
  (filter (fun e => negb (fst e <=? txid)) p,
   flat_map (fun e => if fst e <=? txid then map fst (t_ids (snd e)) else []) p).

Definition in_range (b e x : N) : bool := (b <=? x) && (x <=? e).

(** releaseRange(begin, end) *)
Definition release_range_step (b e : N) (acc : list (N * txp) * list N) (ent : N * txp) : list (N * txp) * list N :=
  let '(tid, x) := ent in
  if (tid <? b) || (e <? tid) then (fst acc ++ [ent], snd acc)
  else if t_lrb x =? b then (fst acc ++ [ent], snd acc)
  else
    let rel := filter (fun pa => in_range b e (snd pa)) (t_ids x) in
    let keep := filter (fun pa => negb (in_range b e (snd pa))) (t_ids x) in
    match keep with
    | [] => (fst acc, snd acc ++ map fst rel)
    | _ => (fst acc ++ [(tid, {| t_ids := keep; t_lrb := b |})], snd acc ++ map fst rel)
    end.

Definition release_range (p : list (N * txp)) (b e : N) : list (N * txp) * list N :=
  if e <? b then (p, []) else fold_left (release_range_step b e) p ([], []).

(** ReleasePendingPages.  [guard0] = the repaired code (`if tid > 0`); the pinned code computed
    uint64(tid-1) for a reader id 0 (defect D10). *)
Definition release_pending_gen (guard0 : bool) (rs : list N) (p : list (N * txp)) : list (N * txp) * list N :=
  let minid := match rs with [] => MAXU64 | r :: _ => r end in
  let '(p1, f1) := if 0 <? minid then release p (minid - 1) else (p, []) in
  let '(p2, f2, m2) := fold_left (fun (acc : list (N * txp) * list N * N) tid =>
       let '(pp, ff, mn) := acc in
       let '(pp', f') := if guard0 && (tid =? 0) then (pp, []) else release_range pp mn (wsub1 tid) in
       (pp', ff ++ f', wadd1 tid)) rs (p1, f1, minid) in
  let '(p3, f3) := release_range p2 m2 MAXU64 in
  (p3, f2 ++ f3).

Definition release_pending_pages (s : fl) : fl :=
  let rs := sortN (readers s) in
  let '(p', freed) := release_pending_gen true rs (pending s) in
  {| free := mergeN (free s) (sortN freed); pending := p'; allocs := allocs s; readers := rs |}.

(** Copyall: all free and pending ids in one sorted list *)
Definition copyall (s : fl) : list N := mergeN (free s) (sortN (pending_ids (pending s))).

(** Write: the page fields (count:u16, then the u64 array that follows the header). *)
Definition write_img (s : fl) : N * list N :=
  let l := count s in
  if l =? 0 then (0, [])
  else if l <? 65535 then (l, copyall s)
  else (65535, l :: copyall s).

(** FreelistPageIds + Read: decode the page fields back to the id list (then sort, then Init). *)
Definition read_ids (img : N * list N) : list N :=
  let '(c, body) := img in
  if c =? 65535 then match body with [] => [] | n :: r => firstn (N.to_nat n) r end
  else firstn (N.to_nat c) body.

Definition read_img (img : N * list N) (s : fl) : fl := init (sortN (read_ids img)) s.

Definition nosync_reload (ids : list N) (s : fl) : fl :=
  init (remove_ids (pending_ids (pending s)) ids) s.

Definition reload_img (img : N * list N) (s : fl) : fl :=
  let s1 := read_img img s in nosync_reload (free s1) s1.

Definition estimated_write_size (s : fl) : N :=
  let n := count s in
  16 + 8 * (if 65535 <=? n then n + 1 else n).

(** ---- the operation language shared with the harness ---- *)
Inductive op :=
| OInit (ids : list N)
| OAlloc (txid n : N) (choice : N)       (* choice: ignored by the array backend *)
| OFree (txid id ov : N)
| OFreeMany (txid : N) (ids : list N)    (* Free of single pages, in order *)
| ORollback (txid : N)
| OAddReader (tid : N)
| ODelReader (tid : N)
| ORelease
| OWrite                                  (* Write into a page image; read back by fresh freelists (observation only) *)
| OWriteReload
| ONoSyncReload (ids : list N).

Inductive backend := Array | Hashmap.

(** one step; result carries the value Allocate returned (0 otherwise) *)
Definition step (b : backend) (s : fl) (o : op) : res (N * fl) :=
  match o with
  | OInit ids => Ok (0, init ids s)
  | OAlloc txid n choice =>
      match b with
      | Array => allocate_array txid n s
      | Hashmap => match allocate_hm txid n choice s with Some r => Ok r | None => Panic end
      end
  | OFree txid id ov => let? s' := free_page txid id ov s in Ok (0, s')
  | OFreeMany txid ids =>
      let? s' := fold_left (fun r id => let? s0 := r in free_page txid id 0 s0) ids (Ok s) in Ok (0, s')
  | ORollback txid => let? s' := rollback txid s in Ok (0, s')
  | OAddReader t => Ok (0, add_reader t s)
  | ODelReader t => Ok (0, remove_reader t s)
  | ORelease => Ok (0, release_pending_pages s)
  | OWrite => Ok (0, s)
  | OWriteReload => Ok (0, reload_img (write_img s) s)
  | ONoSyncReload ids => Ok (0, nosync_reload ids s)
  end.

(** ---- decision procedures of the property, evaluated on what the IMPLEMENTATION did ----
    (their soundness w.r.t. the declarative statements is proved in FreelistProofs.v) *)


(** Allocate(n) returned [ret]; [fb]/[fa] = free ids before/after (sorted). *)
Definition alloc_ok (b : backend) (fb : list N) (n ret : N) (fa : list N) : bool :=
  if ret =? 0 then negb ((0 <? n) && hm_can_allocate fb n) && eqlN fa fb
  else (2 <=? ret) && (0 <? n) && forallb (fun x => memN x fb) (run ret n)
       && eqlN fa (remove_ids (run ret n) fb)
       && match b with
          | Array => negb (existsb (fun s => (fst s <? ret) && (n <=? snd s)) (spans fb))   (* lowest run *)
                     && negb (existsb (fun s => (fst s <? ret) && (ret <? fst s + snd s) && (n <=? fst s + snd s - ret)) (spans fb))
          | Hashmap => true
          end.

Definition pend_pairs (p : list (N * txp)) : list (N * N * N) :=   (* (txid, page, alloctx) *)
  flat_map (fun e => map (fun pa => (fst e, fst pa, snd pa)) (t_ids (snd e))) p.

(** Free(txid, id, ov): free list untouched, exactly the run became pending under txid *)
Definition free_ok (txid id ov : N) (sb sa : fl) : bool :=
  eqlN (free sa) (free sb)
  && eqlN (sortN (pending_ids (pending sa))) (sortN (pending_ids (pending sb) ++ run id (ov + 1)))
  && forallb (fun x => existsb (fun t => (fst (fst t) =? txid) && (snd (fst t) =? x)) (pend_pairs (pending sa))) (run id (ov + 1)).

(** A pending page (t, p, a) may be released iff no reader r has a <= r < t. *)
Definition visible_to (a t r : N) : bool := (a <=? r) && (r <? t).
Definition release_ok (sb sa : fl) : bool :=
  let moved := filter (fun x => negb (memN x (free sb))) (free sa) in
  (* nothing lost, nothing invented *)
  eqlN (sortN (cache sa)) (sortN (cache sb))
  && forallb (fun x => memN x (free sa)) (free sb)
  (* safety: a moved page was not visible to any registered reader *)
  && forallb (fun t => let '(tid, p, a) := t in
        negb (memN p moved) || negb (existsb (visible_to a tid) (readers sb))) (pend_pairs (pending sb))
  (* completeness: with no readers everything is released *)
  && match readers sb with [] => match pending sa with [] => true | _ => false end | _ => true end.

(** Rollback(txid): pending[txid] disappears, nothing else changes (free set, other pending lists) *)
Definition rollback_ok (txid : N) (sb sa : fl) : bool :=
  eqlN (free sa) (free sb)
  && eqlN (sortN (map (fun t => snd (fst t)) (filter (fun t => negb (fst (fst t) =? txid)) (pend_pairs (pending sb)))))
          (sortN (pending_ids (pending sa)))
  && negb (existsb (fun e => fst e =? txid) (pending sa)).

(** Write then Read into a fresh list yields free ++ pending *)
Definition serial_ok (sb : fl) (readback : list N) : bool :=
  eqlN readback (sortN (cache sb)).
