(** Grow: the size arithmetic of db.go - mmapSize, growSize, the MaxSize pre-check in allocate, grow.
    Pure functions over N.  Definitions only. *)
From Bbolt Require Import Base Consts.

(** the doubling loop of mmapSize: first 2^i >= size for i = 15 .. 30 *)
Fixpoint mm_loop (n : nat) (i : N) (size : N) : option N :=
  match n with O => None | S n' => if size <=? 2 ^ i then Some (2 ^ i) else mm_loop n' (i + 1) size end.

(** above 1 GB: round up to a multiple of 1 GB, then to a multiple of the page size, capped at the maximum *)
Definition round_up (ps size : N) : N :=
  let sz := if 0 <? size mod max_mmap_step then size + (max_mmap_step - size mod max_mmap_step) else size in
  let sz := if negb (sz mod ps =? 0) then (sz / ps + 1) * ps else sz in
  if max_map_size <? sz then max_map_size else sz.

Definition mmap_size (ps size : N) : option N :=
  match mm_loop 16 15 size with
  | Some r => Some r
  | None => if max_map_size <? size then None else Some (round_up ps size)
  end.

(** db.growSize(mmapSize, growSize) *)
Definition grow_size (alloc mmapsz growsz : N) : N := if mmapsz <=? alloc then mmapsz else growsz + alloc.

(** the pre-check in db.allocate for an allocation of [count] pages at the high-water mark [mark]:
    [Some true] = refused with ErrMaxSizeReached, [None] = mmap size calculation error *)
Definition alloc_refused (ps alloc maxsize mark count : N) : option bool :=
  let minsz := (mark + count + 1) * ps in
  if maxsize =? 0 then Some false else
  match mmap_size ps minsz with
  | None => None
  | Some nm => Some (maxsize <? grow_size alloc nm minsz)
  end.

(** db.grow(sz) with grow-sync: the new file size *)
Definition grow (alloc datasz filesz sz : N) : N := if sz <=? filesz then filesz else grow_size alloc datasz sz.

(** without grow-sync the file is extended by the page writes themselves *)
Definition grow_nosync (filesz markbytes : N) : N := N.max filesz markbytes.
