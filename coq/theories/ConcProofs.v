(** Proofs about Conc.v: for every schedule the log reads serially; one writer at a time; no deadlock. *)
From Bbolt Require Import Base BaseProofs Conc.
From Coq Require Import Sorting.Permutation Sorting.Sorted.

(** * lists *)
Lemma nth_error_upd_same l t p : (t < length l)%nat -> nth_error (upd l t p) t = Some p.
Proof. revert t; induction l as [|x l IH]; intros [|t] H; simpl in *; try lia; [reflexivity|]. apply IH. lia. Qed.

Lemma nth_error_upd_other l t t' p : t <> t' -> nth_error (upd l t p) t' = nth_error l t'.
Proof.
  revert t t'; induction l as [|x l IH]; intros [|t] [|t'] H; simpl; try reflexivity; try congruence.
  apply IH. congruence.
Qed.

Lemma upd_length l t p : length (upd l t p) = length l.
Proof. revert t; induction l as [|x l IH]; intros [|t]; simpl; auto. Qed.

Lemma nth_error_lt {A} (l : list A) t x : nth_error l t = Some x -> (t < length l)%nat.
Proof. intros H. apply nth_error_Some. congruence. Qed.

Lemma run_nat_app p n : run_nat p (n + 1) = run_nat p n ++ [p + N.of_nat n].
Proof.
  revert p; induction n as [|n IH]; intros p; simpl.
  - f_equal. lia.
  - f_equal. rewrite IH. f_equal. f_equal. lia.
Qed.

Definition leN (x y : N) : Prop := is_true (x <=? y).

Lemma sorted_perm_eq l1 : forall l2, StronglySorted leN l1 -> StronglySorted leN l2 -> Permutation l1 l2 -> l1 = l2.
Proof.
  induction l1 as [|x l1 IH]; intros l2 S1 S2 P.
  - apply Permutation_nil in P. now subst.
  - destruct l2 as [|y l2]; [apply Permutation_sym, Permutation_nil in P; discriminate|].
    inversion S1 as [|? ? S1' F1]; inversion S2 as [|? ? S2' F2]; subst.
    assert (x = y).
    { assert (Hx: In x (y :: l2)) by (eapply Permutation_in; [exact P | now left]).
      assert (Hy: In y (x :: l1)) by (eapply Permutation_in; [apply Permutation_sym; exact P | now left]).
      destruct Hx as [->|Hx]; [reflexivity|]. destruct Hy as [->|Hy]; [reflexivity|].
      rewrite Forall_forall in F1, F2. specialize (F1 _ Hy). specialize (F2 _ Hx).
      unfold leN, is_true in *. rewrite N.leb_le in *. lia. }
    subst y. f_equal. apply IH; auto. eapply Permutation_cons_inv; eauto.
Qed.

Lemma run_nat_ssorted p n : StronglySorted leN (run_nat p n).
Proof.
  revert p; induction n as [|n IH]; intros p; simpl; constructor; [apply IH|].
  apply Forall_forall. intros x Hx. apply run_nat_in in Hx. unfold leN, is_true. apply N.leb_le. lia.
Qed.

Lemma sortN_run_nat p n : sortN (run_nat p n) = run_nat p n.
Proof.
  apply sorted_perm_eq.
  - apply Sorted_StronglySorted; [|apply sortN_sorted].
    intros a b c H1 H2. cbv beta in *. unfold is_true in *. apply N.leb_le in H1, H2. apply N.leb_le. lia.
  - apply run_nat_ssorted.
  - apply Permutation_sym, sortN_perm.
Qed.

Lemma eqlN_refl a : eqlN a a = true.
Proof. induction a as [|x a IH]; simpl; [reflexivity|]. now rewrite N.eqb_refl. Qed.

(** * the version table only grows *)
Lemma commits_app l r : commits (l ++ [r]) = commits l ++ (if is_commit r then [r] else []).
Proof. unfold commits. rewrite filter_app. simpl. destruct (is_commit r); reflexivity. Qed.

Lemma find_app {A} (f : A -> bool) l1 l2 x : find f l1 = Some x -> find f (l1 ++ l2) = Some x.
Proof. induction l1 as [|y l1 IH]; simpl; [discriminate|]. destruct (f y); auto. Qed.

Lemma find_app_none {A} (f : A -> bool) l1 l2 : find f l1 = None -> find f (l1 ++ l2) = find f l2.
Proof. induction l1 as [|y l1 IH]; simpl; [reflexivity|]. destruct (f y); [discriminate|auto]. Qed.

Lemma ver_of_mono id0 c0 l r id c : ver_of id0 c0 l id = Some c -> ver_of id0 c0 (l ++ [r]) id = Some c.
Proof.
  unfold ver_of. destruct (id =? id0); [auto|].
  destruct (find _ l) as [x|] eqn:F; [|discriminate]. intros H. now rewrite (find_app _ _ _ _ F).
Qed.

Lemma rec_ok_mono id0 c0 l r' r : rec_ok id0 c0 l r = true -> rec_ok id0 c0 (l ++ [r']) r = true.
Proof.
  unfold rec_ok, opt_is. intros H.
  destruct (t_kind r).
  - apply andb_true_iff in H. destruct H as [H1 H2]. rewrite H1. simpl.
    destruct (ver_of id0 c0 l (t_id r - 1)) as [x|] eqn:V; [|discriminate]. now rewrite (ver_of_mono _ _ _ _ _ _ V).
  - apply andb_true_iff in H. destruct H as [H1 H2]. rewrite H1. simpl.
    destruct (ver_of id0 c0 l (t_id r - 1)) as [x|] eqn:V; [|discriminate]. now rewrite (ver_of_mono _ _ _ _ _ _ V).
  - destruct (ver_of id0 c0 l (t_id r)) as [x|] eqn:V; [|discriminate]. now rewrite (ver_of_mono _ _ _ _ _ _ V).
Qed.

Lemma find_commit_none l id : (forall r, In r (commits l) -> t_id r <> id) ->
  find (fun r => is_commit r && (t_id r =? id)) l = None.
Proof.
  induction l as [|x l IH]; intros H; simpl; [reflexivity|].
  destruct (is_commit x) eqn:C; simpl.
  - destruct (t_id x =? id) eqn:E.
    + apply N.eqb_eq in E. exfalso. apply (H x); [|exact E]. unfold commits. simpl. rewrite C. now left.
    + apply IH. intros r Hr. apply H. unfold commits in *. simpl. rewrite C. now right.
  - apply IH. intros r Hr. apply H. unfold commits in *. simpl. now rewrite C.
Qed.

(** * the invariant *)
Section Inv.
  Variable mix : content -> N -> content.
  Variables (id0 : N) (c0 : content).

  Definition pc_ok (s : cstate) (t : nat) (p : pc) : Prop :=
    match p with
    | Idle _ => True
    | WLocked _ _ _ | WUnlock _ => lock s = Some t
    | WHold id rc _ _ _ | WDirty id rc _ _ _ => lock s = Some t /\ id = mid s + 1 /\ rc = mc s
    | RSnap id c _ => ver_of id0 c0 (log s) id = Some c
    end.

  Record CInv (s : cstate) : Prop := {
    cJ1 : map t_id (commits (log s)) = run_nat (id0 + 1) (length (commits (log s)));
    cJm : mid s = id0 + N.of_nat (length (commits (log s)));
    cJ2 : ver_of id0 c0 (log s) (mid s) = Some (mc s);
    cJ3 : forall r, In r (log s) -> rec_ok id0 c0 (log s) r = true;
    cJ4 : forall t p, nth_error (thr s) t = Some p -> pc_ok s t p;
    cJ5 : forall t, lock s = Some t -> exists p, nth_error (thr s) t = Some p /\ is_w p = true }.

  Lemma pc_ok_transfer s s' t p :
    pc_ok s t p ->
    (lock s = Some t -> lock s' = lock s /\ mid s' = mid s /\ mc s' = mc s) ->
    (forall id c, ver_of id0 c0 (log s) id = Some c -> ver_of id0 c0 (log s') id = Some c) ->
    pc_ok s' t p.
  Proof.
    intros H L V. destruct p; simpl in *; auto.
    - destruct (L H) as (A & _). congruence.
    - destruct H as (H1 & H2 & H3). destruct (L H1) as (A & B & C). repeat split; congruence.
    - destruct H as (H1 & H2 & H3). destruct (L H1) as (A & B & C). repeat split; congruence.
    - destruct (L H) as (A & _). congruence.
  Qed.

  Lemma inv_init progs : CInv (cinit id0 c0 progs).
  Proof.
    constructor; simpl.
    - reflexivity.
    - lia.
    - unfold ver_of. now rewrite N.eqb_refl.
    - intros r [].
    - intros t p H. apply nth_error_In in H. apply in_map_iff in H. destruct H as (x & <- & _). exact I.
    - discriminate.
  Qed.

  (** the other threads' obligations survive a step of thread [t] that keeps the log growing *)
  Ltac others s Hn J4 t :=
    let t' := fresh "t'" in let p' := fresh "p'" in let H' := fresh "H'" in
    intros t' p' H'; destruct (Nat.eq_dec t t') as [<-|Hne];
    [ rewrite nth_error_upd_same in H' by (eapply nth_error_lt; exact Hn); injection H' as <- | rewrite nth_error_upd_other in H' by exact Hne ].

  Lemma commit_ids_le s : CInv s -> forall r, In r (commits (log s)) -> t_id r <> mid s + 1.
  Proof.
    intros I r Hr. assert (In (t_id r) (map t_id (commits (log s)))) by (now apply in_map).
    rewrite (cJ1 _ I) in H. apply run_nat_in in H. rewrite (cJm _ I). lia.
  Qed.

  Lemma inv_step s t : CInv s -> CInv (cstep mix s t).
  Proof.
    intros I. unfold cstep. destruct (nth_error (thr s) t) as [p|] eqn:Hn; [|exact I].
    pose proof (cJ4 _ I _ _ Hn) as Hp.
    destruct p as [todo | tok e todo | id rc tok e todo | id rc nc e todo | todo | id c todo].
    - (* Idle *)
      destruct todo as [|[tok e|] todo]; [exact I| |].
      + destruct (lock s) as [h|] eqn:L; [exact I|].
        constructor; simpl; try apply I.
        * others s Hn (cJ4 _ I) t; [simpl; reflexivity|].
          eapply pc_ok_transfer; [apply (cJ4 _ I _ _ H')| |auto]. simpl. intros X. congruence.
        * intros t0 [= <-]. exists (WLocked tok e todo). split; [|reflexivity].
          apply nth_error_upd_same. eapply nth_error_lt; eauto.
      + constructor; simpl; try apply I.
        * others s Hn (cJ4 _ I) t; [simpl; apply I|].
          eapply pc_ok_transfer; [apply (cJ4 _ I _ _ H')| |auto]. simpl. auto.
        * intros t0 L. destruct (cJ5 _ I _ L) as (p0 & N0 & W0).
          destruct (Nat.eq_dec t t0) as [<-|Hne]; [rewrite Hn in N0; injection N0 as <-; discriminate|].
          exists p0. split; [|exact W0]. now rewrite nth_error_upd_other.
    - (* WLocked *)
      simpl in Hp. constructor; simpl; try apply I.
      + others s Hn (cJ4 _ I) t; [simpl; auto|].
        eapply pc_ok_transfer; [apply (cJ4 _ I _ _ H')| |auto]. simpl. auto.
      + intros t0 L. destruct (Nat.eq_dec t t0) as [<-|Hne].
        * eexists. split; [apply nth_error_upd_same; eapply nth_error_lt; eauto | reflexivity].
        * destruct (cJ5 _ I _ L) as (p0 & N0 & W0). exists p0. split; [|exact W0]. now rewrite nth_error_upd_other.
    - (* WHold *)
      simpl in Hp. constructor; simpl; try apply I.
      + others s Hn (cJ4 _ I) t; [simpl; exact Hp|].
        eapply pc_ok_transfer; [apply (cJ4 _ I _ _ H')| |auto]. simpl. auto.
      + intros t0 L. destruct (Nat.eq_dec t t0) as [<-|Hne].
        * eexists. split; [apply nth_error_upd_same; eapply nth_error_lt; eauto | reflexivity].
        * destruct (cJ5 _ I _ L) as (p0 & N0 & W0). exists p0. split; [|exact W0]. now rewrite nth_error_upd_other.
    - (* WDirty: commit or abandon *)
      simpl in Hp. destruct Hp as (L & -> & ->).
      assert (OTH: forall lg' m' c', (forall id c, ver_of id0 c0 (log s) id = Some c -> ver_of id0 c0 lg' id = Some c) ->
                forall t' p', t <> t' -> nth_error (thr s) t' = Some p' ->
                pc_ok {| mid := m'; mc := c'; lock := lock s; thr := upd (thr s) t (WUnlock todo); log := lg' |} t' p').
      { intros lg' m' c' V t' p' Hne H'. eapply pc_ok_transfer; [apply (cJ4 _ I _ _ H')| |exact V].
        simpl. intros X. rewrite L in X. congruence. }
      assert (LK: forall t0, lock s = Some t0 ->
                exists p, nth_error (upd (thr s) t (WUnlock todo)) t0 = Some p /\ is_w p = true).
      { intros t0 L0. rewrite L in L0. injection L0 as <-.
        eexists. split; [apply nth_error_upd_same; eapply nth_error_lt; eauto | reflexivity]. }
      assert (ABORT: CInv {| mid := mid s; mc := mc s; lock := lock s; thr := upd (thr s) t (WUnlock todo);
                log := log s ++ [{| t_thread := t; t_id := mid s + 1; t_kind := KAbort; t_read := mc s; t_written := nc |}] |}).
      { constructor; simpl.
        - rewrite commits_app. simpl. rewrite app_nil_r. apply I.
        - rewrite commits_app. simpl. rewrite app_nil_r. apply I.
        - apply ver_of_mono. apply I.
        - intros r Hr. apply in_app_or in Hr. destruct Hr as [Hr|[<-|[]]].
          + apply rec_ok_mono. now apply I.
          + unfold rec_ok. simpl. replace (mid s + 1 - 1) with (mid s) by lia.
            rewrite (ver_of_mono _ _ _ _ _ _ (cJ2 _ I)). simpl. rewrite N.eqb_refl, andb_true_r.
            apply N.ltb_lt. rewrite (cJm _ I). lia.
        - others s Hn (cJ4 _ I) t; [simpl; exact L|]. apply OTH; auto. intros; now apply ver_of_mono.
        - exact LK. }
      destruct e; try exact ABORT.
      (* commit *)
      assert (FN: find (fun r => is_commit r && (t_id r =? mid s + 1)) (log s) = None).
      { apply find_commit_none. apply commit_ids_le. exact I. }
      constructor; simpl.
      + rewrite commits_app. simpl. rewrite map_app, app_length. simpl. rewrite run_nat_app. f_equal; [apply I|].
        f_equal. rewrite (cJm _ I). lia.
      + rewrite commits_app. simpl. rewrite app_length. simpl. rewrite (cJm _ I). lia.
      + unfold ver_of. destruct (mid s + 1 =? id0) eqn:E.
        * apply N.eqb_eq in E. rewrite (cJm _ I) in E. lia.
        * rewrite find_app_none by exact FN. simpl. now rewrite N.eqb_refl.
      + intros r Hr. apply in_app_or in Hr. destruct Hr as [Hr|[<-|[]]].
        * apply rec_ok_mono. now apply I.
        * unfold rec_ok. simpl. replace (mid s + 1 - 1) with (mid s) by lia.
          rewrite (ver_of_mono _ _ _ _ _ _ (cJ2 _ I)). simpl. rewrite N.eqb_refl, andb_true_r.
          apply N.ltb_lt. rewrite (cJm _ I). lia.
      + others s Hn (cJ4 _ I) t; [simpl; exact L|]. apply OTH; auto. intros; now apply ver_of_mono.
      + exact LK.
    - (* WUnlock *)
      simpl in Hp. constructor; simpl; try apply I.
      + others s Hn (cJ4 _ I) t; [simpl; trivial|].
        eapply pc_ok_transfer; [apply (cJ4 _ I _ _ H')| |auto]. simpl. intros X. congruence.
      + discriminate.
    - (* RSnap *)
      simpl in Hp. constructor; simpl.
      + rewrite commits_app. simpl. rewrite app_nil_r. apply I.
      + rewrite commits_app. simpl. rewrite app_nil_r. apply I.
      + apply ver_of_mono. apply I.
      + intros r Hr. apply in_app_or in Hr. destruct Hr as [Hr|[<-|[]]].
        * apply rec_ok_mono. now apply I.
        * unfold rec_ok. simpl. rewrite (ver_of_mono _ _ _ _ _ _ Hp). simpl. apply N.eqb_refl.
      + others s Hn (cJ4 _ I) t; [simpl; trivial|].
        eapply pc_ok_transfer; [apply (cJ4 _ I _ _ H')| |]; simpl; auto. intros; now apply ver_of_mono.
      + intros t0 L. destruct (cJ5 _ I _ L) as (p0 & N0 & W0).
        destruct (Nat.eq_dec t t0) as [<-|Hne]; [rewrite Hn in N0; injection N0 as <-; discriminate|].
        exists p0. split; [|exact W0]. now rewrite nth_error_upd_other.
  Qed.

  Lemma inv_run sched : forall s, CInv s -> CInv (crun mix s sched).
  Proof. induction sched as [|t r IH]; intros s I; simpl; [exact I|]. apply IH. now apply inv_step. Qed.

  (** * the statements *)
  Theorem log_serial progs sched : serial_ok id0 c0 (log (crun mix (cinit id0 c0 progs) sched)) = true.
  Proof.
    pose proof (inv_run sched _ (inv_init progs)) as I. unfold serial_ok. apply andb_true_iff. split.
    - unfold ids_consecutive. rewrite (cJ1 _ I). rewrite sortN_run_nat. apply eqlN_refl.
    - apply forallb_forall. apply I.
  Qed.

  Theorem commit_ids_in_order progs sched : let s := crun mix (cinit id0 c0 progs) sched in
    map t_id (commits (log s)) = run_nat (id0 + 1) (length (commits (log s))) /\
    mid s = id0 + N.of_nat (length (commits (log s))) /\ ver_of id0 c0 (log s) (mid s) = Some (mc s).
  Proof. intros s. pose proof (inv_run sched _ (inv_init progs)) as I. split; [apply I|split; apply I]. Qed.

  Theorem one_writer progs sched t1 t2 p1 p2 : let s := crun mix (cinit id0 c0 progs) sched in
    nth_error (thr s) t1 = Some p1 -> nth_error (thr s) t2 = Some p2 -> is_w p1 = true -> is_w p2 = true -> t1 = t2.
  Proof.
    intros s H1 H2 W1 W2. pose proof (inv_run sched _ (inv_init progs)) as I.
    pose proof (cJ4 _ I _ _ H1) as A. pose proof (cJ4 _ I _ _ H2) as B.
    assert (lock s = Some t1) by (destruct p1; simpl in *; try discriminate; tauto).
    assert (lock s = Some t2) by (destruct p2; simpl in *; try discriminate; tauto).
    congruence.
  Qed.

  (** no deadlock: while some thread has work left, some thread's step changes the state *)
  Theorem never_stuck progs sched : let s := crun mix (cinit id0 c0 progs) sched in
    (exists t p, nth_error (thr s) t = Some p /\ unfinished p = true) -> exists t, cstep mix s t <> s.
  Proof.
    intros s (t & p & Hn & U). assert (I: CInv s) by apply (inv_run sched _ (inv_init progs)). clearbody s.
    assert (ne: forall l t0 p0 q, nth_error l t0 = Some p0 -> p0 <> q -> upd l t0 q <> l).
    { intros l t0 p0 q H D E. pose proof (nth_error_upd_same l t0 q (nth_error_lt _ _ _ H)) as X.
      rewrite E in X. congruence. }
    destruct (lock s) as [h|] eqn:L.
    - destruct (cJ5 _ I _ L) as (ph & Nh & Wh). exists h. unfold cstep. rewrite Nh.
      destruct ph; try discriminate; try (destruct e); intros E;
        match type of E with ?a = ?b => assert (X: thr a = thr b) by (now rewrite E) end; simpl in X;
        eapply ne in X; eauto; discriminate.
    - exists t. unfold cstep. rewrite Hn. rewrite L.
      assert (Wp: is_w p = false).
      { destruct (is_w p) eqn:W; [|reflexivity]. pose proof (cJ4 _ I _ _ Hn) as A.
        destruct p; simpl in *; try discriminate; try (destruct A as (A & _)); congruence. }
      destruct p as [todo| | | | |]; try discriminate.
      + destruct todo as [|[tok e|] todo]; [discriminate| |]; intros E;
          match type of E with ?a = ?b => assert (X: thr a = thr b) by (now rewrite E) end; simpl in X;
          eapply ne in X; eauto; discriminate.
      + intros E. match type of E with ?a = ?b => assert (X: thr a = thr b) by (now rewrite E) end. simpl in X.
        eapply ne in X; eauto; discriminate.
  Qed.
End Inv.
