From Bbolt Require Import Base Lock.

Lemma compatible_rw held : compatible RW held = true -> held = [].
Proof. destruct held; [reflexivity | discriminate]. Qed.

Lemma compatible_ro held : compatible RO held = true -> forall id, ~ In (id, RW) held.
Proof.
  unfold compatible. rewrite forallb_forall. intros H id Hin. specialize (H _ Hin). discriminate.
Qed.

(** while a database is open read-write no other open succeeds; read-only opens coexist and exclude read-write *)
Theorem lstep_exclusive held o : exclusive_ok held -> exclusive_ok (fst (lstep held o)).
Proof.
  intros E. destruct o as [id m|id]; simpl.
  - destruct (compatible m held) eqn:C; simpl; [|exact E].
    destruct m.
    + apply compatible_rw in C. subst held. intros id' [H|[]]. inversion H; subst. reflexivity.
    + intros id' Hin. apply in_app_iff in Hin. destruct Hin as [Hin|[H|[]]]; [|discriminate].
      exfalso. exact (compatible_ro held C id' Hin).
  - match goal with |- context [if ?c then _ else _] => destruct c end; simpl; [|exact E].
    intros id' Hin. apply filter_In in Hin. destruct Hin as [Hin Hne]. rewrite (E id' Hin) in *. simpl in *.
    destruct (id' =? id); [discriminate | reflexivity].
Qed.

Theorem lrun_exclusive os : forall held, exclusive_ok held -> exclusive_ok (fst (lrun held os)).
Proof.
  induction os as [|o os IH]; intros held E; [exact E|]. simpl.
  pose proof (lstep_exclusive held o E) as H.
  destruct (lstep held o) as [h1 x]. simpl in H.
  specialize (IH h1 H). destruct (lrun h1 os) as [h2 xs]. simpl in *. exact IH.
Qed.

(** a read-write open succeeds only when nobody holds the file; a read-only open only when no writer does *)
Theorem open_rw_needs_nobody held id : snd (lstep held (LOpen id RW)) = LOk -> held = [].
Proof. unfold lstep. destruct (compatible RW held) eqn:C; simpl; [intros _; now apply compatible_rw | discriminate]. Qed.

Theorem open_ro_needs_no_writer held id : snd (lstep held (LOpen id RO)) = LOk -> forall w, ~ In (w, RW) held.
Proof. unfold lstep. destruct (compatible RO held) eqn:C; simpl; [intros _; now apply compatible_ro | discriminate]. Qed.

(** closing releases: afterwards the closed id holds nothing *)
Theorem close_releases held id : forall m, ~ In (id, m) (fst (lstep held (LClose id))).
Proof.
  intros m. simpl. match goal with |- context [if ?c then _ else _] => destruct c eqn:E end; simpl.
  - intros H. apply filter_In in H. destruct H as [_ H]. simpl in H. rewrite N.eqb_refl in H. discriminate.
  - intros H. assert (X : existsb (fun h => fst h =? id) held = true).
    { apply existsb_exists. exists (id, m). split; [exact H | simpl; apply N.eqb_refl]. } congruence.
Qed.
