(** Crash: the commit protocol as I/O events, a durable image, and a crash at any point with any subset of the
    not-yet-synced writes persisted - each write fully, not at all, or torn.  Recovery is Open's rule: the valid meta
    with the highest txid.  Definitions only.

    OS assumptions (trusted base): a completed fdatasync makes all earlier writes durable; an un-synced write may
    persist fully, not at all, or partially (torn); a write does not alter other pages. *)
From Bbolt Require Import Base.

Inductive wr := WData (p c : N) | WMeta (slot : bool) (txid : N).     (* content [c] = id of the transaction that wrote it *)
Inductive ev := EW (w : wr) | ESync.
Inductive sel := Skip | Full | Torn.

(** page contents: None = garbage (torn write) *)
Record img := { i_pages : list (N * option N); i_m0 : option N; i_m1 : option N }.     (* metas: None = invalid *)

Fixpoint plookup (p : N) (l : list (N * option N)) : option (option N) :=
  match l with [] => None | (q, c) :: r => if p =? q then Some c else plookup p r end.
Definition page_content (i : img) (p : N) : option (option N) := plookup p (i_pages i).

Definition apply_wr (i : img) (w : wr) (s : sel) : img :=
  match s with
  | Skip => i
  | Full => match w with
            | WData p c => {| i_pages := (p, Some c) :: i_pages i; i_m0 := i_m0 i; i_m1 := i_m1 i |}
            | WMeta false t => {| i_pages := i_pages i; i_m0 := Some t; i_m1 := i_m1 i |}
            | WMeta true t => {| i_pages := i_pages i; i_m0 := i_m0 i; i_m1 := Some t |}
            end
  | Torn => match w with
            | WData p _ => {| i_pages := (p, None) :: i_pages i; i_m0 := i_m0 i; i_m1 := i_m1 i |}
            | WMeta false _ => {| i_pages := i_pages i; i_m0 := None; i_m1 := i_m1 i |}      (* checksum no longer matches *)
            | WMeta true _ => {| i_pages := i_pages i; i_m0 := i_m0 i; i_m1 := None |}
            end
  end.

Fixpoint apply_sel (i : img) (ws : list wr) (ss : list sel) : img :=
  match ws, ss with
  | w :: ws', s :: ss' => apply_sel (apply_wr i w s) ws' ss'
  | _, _ => i
  end.

(** run events: (durable image, writes issued since the last completed sync) *)
Fixpoint run_ev (d : img) (pend : list wr) (evs : list ev) : img * list wr :=
  match evs with
  | [] => (d, pend)
  | EW w :: r => run_ev d (pend ++ [w]) r
  | ESync :: r => run_ev (fold_left (fun i w => apply_wr i w Full) pend d) [] r
  end.

(** the image found after a crash once the first [k] events have been issued, [ss] saying what became of each un-synced write *)
Definition crash (d : img) (evs : list ev) (k : nat) (ss : list sel) : img :=
  let '(d', pend) := run_ev d [] (firstn k evs) in apply_sel d' pend ss.

(** db.meta() on reopen: the valid meta with the larger txid *)
Definition recover (i : img) : option N :=
  match i_m0 i, i_m1 i with
  | Some a, Some b => Some (N.max a b)
  | Some a, None => Some a
  | None, Some b => Some b
  | None, None => None
  end.

(** Tx.Commit for transaction [T] writing pages [A]: data pages, fdatasync, meta into slot T mod 2, fdatasync *)
Definition commit_events (T : N) (A : list N) : list ev :=
  map (fun p => EW (WData p T)) A ++ [ESync; EW (WMeta (N.odd T) T); ESync].

(** the durable image holds committed state [t] in its slot and something older (or invalid) in the other *)
Definition at_rest (d : img) (t : N) : Prop :=
  (if N.odd t then i_m1 d = Some t /\ (forall x, i_m0 d = Some x -> x < t)
   else i_m0 d = Some t /\ (forall x, i_m1 d = Some x -> x < t)).
