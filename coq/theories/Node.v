(** Node: line-for-line model of the pure core of node.go and internal/common/inode.go - the materialised B+tree
    node: put, del (binary search with sort.Search), size, sizeLessThan, splitIndex, splitTwo, split, the rebalance
    threshold test, write (WriteInodeToPage) and read (ReadInodeFromPage).  The bucket/transaction context a node
    needs appears as parameters: the high-water mark (put's panic), the page size and the fill percentage.
    Definitions only. *)
From Bbolt Require Import Base Consts Spec Layout LayoutEnc.

Record inode := { i_flags : N; i_key : bytes; i_val : bytes; i_pgid : N }.
Record node := { n_leaf : bool; n_unbal : bool; n_inodes : list inode }.

Definition elsz (leaf : bool) : N := if leaf then leaf_elem_size else branch_elem_size.   (* pageElementSize *)
Definition isz (leaf : bool) (i : inode) : N := elsz leaf + len (i_key i) + len (i_val i).
Definition min_keys (leaf : bool) : nat := if leaf then 1%nat else 2%nat.                   (* minKeys *)

(** node.size *)
Definition size_of (leaf : bool) (l : list inode) : N := fold_left (fun s i => s + isz leaf i) l page_header_size.
Definition size (n : node) : N := size_of (n_leaf n) (n_inodes n).

(** node.sizeLessThan: note the early exit sits INSIDE the loop, so an empty node is "less than" any v *)
Fixpoint slt_loop (leaf : bool) (v sz : N) (l : list inode) : bool :=
  match l with
  | [] => true
  | i :: r => let sz' := sz + isz leaf i in if v <=? sz' then false else slt_loop leaf v sz' r
  end.
Definition size_less_than (n : node) (v : N) : bool := slt_loop (n_leaf n) v page_header_size (n_inodes n).

(** sort.Search(n, f): smallest index in [0, n] for which f is true, by bisection *)
Fixpoint bsearch (fuel : nat) (f : nat -> bool) (i j : nat) : nat :=
  match fuel with
  | O => i
  | S fu => if (i <? j)%nat then
              let h := Nat.div2 (i + j) in
              if f h then bsearch fu f i h else bsearch fu f (S h) j
            else i
  end.
Definition search (n : nat) (f : nat -> bool) : nat := bsearch (S n) f 0 n.

(** bytes.Compare(inodes[h].Key(), k) != -1 *)
Definition key_ge (l : list inode) (k : bytes) (h : nat) : bool :=
  match nth_error l h with Some i => negb (blt (i_key i) k) | None => true end.

(** node.put; [mark] = tx.meta.Pgid() *)
Definition put (mark : N) (n : node) (oldk newk v : bytes) (pgid flags : N) : res node :=
  if mark <=? pgid then Panic
  else if len oldk =? 0 then Panic
  else if len newk =? 0 then Panic
  else
    let l := n_inodes n in
    let idx := search (length l) (key_ge l oldk) in
    let exact := match nth_error l idx with Some i => beq (i_key i) oldk | None => false end in
    let ni := {| i_flags := flags; i_key := newk; i_val := v; i_pgid := pgid |} in
    Ok {| n_leaf := n_leaf n; n_unbal := n_unbal n;
          n_inodes := firstn idx l ++ ni :: skipn (if exact then S idx else idx) l |}.

(** node.del *)
Definition del (n : node) (k : bytes) : node :=
  let l := n_inodes n in
  let idx := search (length l) (key_ge l k) in
  match nth_error l idx with
  | Some i => if beq (i_key i) k
              then {| n_leaf := n_leaf n; n_unbal := true; n_inodes := firstn idx l ++ skipn (S idx) l |}
              else n
  | None => n
  end.

(** node.splitIndex(threshold): returns (index, size of the first part) *)
Fixpoint split_index_loop (leaf : bool) (thr : N) (l : list inode) (i cnt index : nat) (sz : N) : nat * N :=
  match cnt, l with
  | S c, x :: r =>
      let el := isz leaf x in
      if (2 <=? i)%nat && (thr <? sz + el) then (i, sz)
      else split_index_loop leaf thr r (S i) c i (sz + el)
  | _, _ => (index, sz)
  end.
Definition split_index (leaf : bool) (thr : N) (l : list inode) : nat * N :=
  split_index_loop leaf thr l 0 (length l - 2) 0 page_header_size.

(** fill percentage as an integer percent; splitTwo clamps it to [10, 100] (minFillPercent, maxFillPercent);
    threshold = int(float64(pageSize) * fillPercent) *)
Definition clamp_fill (p : N) : N := if p <? 10 then 10 else if 100 <? p then 100 else p.
Definition split_threshold (ps p : N) : N := ps * clamp_fill p / 100.

(** node.splitTwo on the inode list: None = no split *)
Definition split_two (leaf : bool) (ps p : N) (l : list inode) : option (list inode * list inode) :=
  if (length l <=? 4)%nat || slt_loop leaf ps page_header_size l then None
  else let idx := fst (split_index leaf (split_threshold ps p) l) in Some (firstn idx l, skipn idx l).

(** node.split: the loop over splitTwo *)
Fixpoint split_loop (fuel : nat) (leaf : bool) (ps p : N) (l : list inode) : res (list (list inode)) :=
  match fuel with
  | O => OutOfFuel
  | S f => match split_two leaf ps p l with
           | None => Ok [l]
           | Some (a, b) => let? r := split_loop f leaf ps p b in Ok (a :: r)
           end
  end.
Definition split (n : node) (ps p : N) : res (list (list inode)) :=
  split_loop (S (length (n_inodes n))) (n_leaf n) ps p (n_inodes n).

(** node.rebalance's first test (fill percentage NOT clamped here): true = leave the node alone *)
Definition rebalance_threshold (ps p : N) : N := (ps * p / 100) / 2.
Definition big_enough (n : node) (ps p : N) : bool :=
  (rebalance_threshold ps p <? size n) && (min_keys (n_leaf n) <? length (n_inodes n))%nat.

(** pages a spilled node occupies: (size + pageSize - 1) / pageSize *)
Definition pages_needed (leaf : bool) (ps : N) (l : list inode) : N := (size_of leaf l + ps - 1) / ps.

(** ---- node.write: the bytes written into a zeroed page buffer whose id and overflow are already set ---- *)
Fixpoint enc_elems (leaf : bool) (doff : N) (l : list inode) : list N :=
  match l with
  | [] => []
  | x :: r =>
      let pos := 16 * N.of_nat (S (length r)) + doff in
      (if leaf then enc_le 4 (i_flags x) ++ enc_le 4 pos ++ enc_le 4 (len (i_key x)) ++ enc_le 4 (len (i_val x))
       else enc_le 4 pos ++ enc_le 4 (len (i_key x)) ++ enc_le 8 (i_pgid x))
      ++ enc_elems leaf (doff + len (i_key x) + len (i_val x)) r
  end.
Definition enc_data (l : list inode) : list N := flat_map (fun x => i_key x ++ i_val x) l.
Definition enc_header (pg flags count ov : N) : list N := enc_le 8 pg ++ enc_le 2 flags ++ enc_le 2 count ++ enc_le 4 ov.

(** the used prefix of the page (everything behind it stays zero); Panic = the Go code panics / asserts *)
Definition write (n : node) (pg ov : N) : res (list N) :=
  let l := n_inodes n in
  if 65535 <=? N.of_nat (length l) then Panic
  else if existsb (fun x => len (i_key x) =? 0) l then Panic
  else if negb (n_leaf n) && existsb (fun x => i_pgid x =? pg) l then Panic
  else Ok (enc_header pg (if n_leaf n then leaf_page_flag else branch_page_flag) (N.of_nat (length l)) ov
           ++ enc_elems (n_leaf n) 0 l ++ enc_data l).

(** ---- node.read (ReadInodeFromPage) over file content [rd], page header at byte [base] ---- *)
Section Read.
  Variable rd : N -> N.
  Definition read_leaf_elem (base i : N) : inode :=
    let e := base + 16 + 16 * i in
    let pos := u32 rd (e + 4) in let ks := u32 rd (e + 8) in let vs := u32 rd (e + 12) in
    {| i_flags := u32 rd e; i_key := rbytes rd (N.to_nat ks) (e + pos);
       i_val := rbytes rd (N.to_nat vs) (e + pos + ks); i_pgid := 0 |}.
  Definition read_branch_elem (base i : N) : inode :=
    let e := base + 16 + 16 * i in
    let pos := u32 rd e in let ks := u32 rd (e + 4) in
    {| i_flags := 0; i_key := rbytes rd (N.to_nat ks) (e + pos); i_val := []; i_pgid := u64 rd (e + 8) |}.
  (** IsLeafPage tests the flag VALUE (p.flags == LeafPageFlag) in this tree; Panic = zero-length key assertion *)
  Definition read (base : N) : res node :=
    let flags := u16 rd (base + 8) in
    let count := u16 rd (base + 10) in
    let leaf := flags =? leaf_page_flag in
    let l := map (fun i => if leaf then read_leaf_elem base i else read_branch_elem base i) (run 0 count) in
    if existsb (fun x => len (i_key x) =? 0) l then Panic
    else Ok {| n_leaf := leaf; n_unbal := false; n_inodes := l |}.
End Read.

(** ---- what a leaf node means: the key/value map it holds (used by the refinement statements) ---- *)
Definition keys_of (l : list inode) : list bytes := map i_key l.
Fixpoint keys_sorted (ks : list bytes) : bool :=
  match ks with [] => true | k :: r => match r with [] => true | k' :: _ => blt k k' && keys_sorted r end end.
Fixpoint ilookup (k : bytes) (l : list inode) : option inode :=
  match l with [] => None | x :: r => if beq (i_key x) k then Some x else ilookup k r end.

(** decision procedure run on the IMPLEMENTATION's split result: nothing lost or reordered, no empty piece,
    every piece but the last has at least MinKeysPerPage elements *)
Definition split_ok (l : list inode) (pieces : list (list inode)) : bool :=
  let ks := map keys_of pieces in
  (if list_eq_dec (list_eq_dec N.eq_dec) (concat ks) (keys_of l) then true else false)
  && forallb (fun p => negb (match p with [] => true | _ => false end)) (match l with [] => [] | _ => pieces end)
  && forallb (fun p => (2 <=? length p)%nat) (removelast pieces).

(** ---- Bucket.write: the value stored in the parent's leaf for an inline bucket: the 16-byte bucket header
    (root page id 0, sequence) followed by the root node written as a page with id 0 and no overflow ---- *)
Definition enc_inbucket (root seq : N) : list N := enc_le 8 root ++ enc_le 8 seq.
Definition bucket_write (seq : N) (n : node) : res (list N) :=
  let? pg := write n 0 0 in Ok (enc_inbucket 0 seq ++ pg).
(** the value stored for a paged bucket: just the header (Bucket.spill) *)
Definition bucket_header_value (root seq : N) : list N := enc_inbucket root seq.
