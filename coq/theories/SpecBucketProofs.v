(** Proofs about Spec.v, part 2: what each Bucket/Tx operation does to the tree of buckets, and what it
    leaves alone (frame properties), for arbitrary nesting. *)
From Bbolt Require Import Base Consts Spec SpecProofs Compact CompactProofs CompactNestedProofs.
From Coq Require Import ZifyN ZifyNat ZifyBool.

(** * byte strings *)
Definition bytes_eq_dec : forall a b : bytes, {a = b} + {a <> b} := list_eq_dec N.eq_dec.

Lemma bcmp_eq_iff a b : bcmp a b = Eq <-> a = b.
Proof. split; [apply bcmp_eq | intros ->; apply bcmp_refl]. Qed.

Lemma bcmp_neq a b : a <> b -> bcmp a b <> Eq.
Proof. intros H E. apply H. now apply bcmp_eq. Qed.

Lemma beq_eq a b : beq a b = true <-> a = b.
Proof.
  unfold beq. destruct (bcmp a b) eqn:E.
  - apply bcmp_eq in E. tauto.
  - split; [discriminate|]. intros ->. rewrite bcmp_refl in E. discriminate.
  - split; [discriminate|]. intros ->. rewrite bcmp_refl in E. discriminate.
Qed.

(** * association lists: facts that need no sortedness *)
Lemma lookup_In k l : forall e, lookup k l = Some e -> In (k, e) l.
Proof.
  induction l as [|[k' e'] l IH]; intros e H; cbn [lookup] in H; [discriminate|].
  destruct (bcmp k k') eqn:E; try discriminate.
  - apply bcmp_eq in E. subst k'. inversion H; subst. left; reflexivity.
  - right. now apply IH.
Qed.

(** replacing the entry of a key that is present leaves every other key alone *)
Lemma lookup_replace_other n e e0 k l : lookup n l = Some e0 -> k <> n ->
  lookup k (insert n e l) = lookup k l.
Proof.
  intros H Hne. induction l as [|[k' e'] l IH]; cbn [lookup insert] in *; [discriminate|].
  destruct (bcmp n k') eqn:E; try discriminate.
  - apply bcmp_eq in E. subst k'. cbn [lookup]. destruct (bcmp k n) eqn:E2; try reflexivity.
    apply bcmp_eq in E2. contradiction.
  - cbn [lookup]. destruct (bcmp k k'); try reflexivity. now apply IH.
Qed.

Lemma insert_lookup_same k e l : lookup k l = Some e -> insert k e l = l.
Proof.
  induction l as [|[k' e'] l IH]; cbn [lookup insert]; [discriminate|].
  destruct (bcmp k k') eqn:E; try discriminate.
  - apply bcmp_eq in E. subst k'. intros H. now inversion H.
  - intros H. f_equal. now apply IH.
Qed.

Lemma In_insert k e l k0 e0 : In (k0, e0) (insert k e l) -> (k0, e0) = (k, e) \/ In (k0, e0) l.
Proof.
  induction l as [|[k' e'] l IH]; cbn [insert]; intros H.
  - destruct H as [H|[]]. left; now symmetry.
  - destruct (bcmp k k').
    + destruct H as [H|H]; [left; now symmetry | right; right; exact H].
    + destruct H as [H|H]; [left; now symmetry | right; exact H].
    + destruct H as [H|H]; [right; left; exact H|]. destruct (IH H) as [A|A]; [left; exact A | right; right; exact A].
Qed.

Lemma In_remove k l k0 e0 : In (k0, e0) (remove k l) -> In (k0, e0) l.
Proof.
  induction l as [|[k' e'] l IH]; cbn [remove]; intros H; [exact H|].
  destruct (bcmp k k').
  - right; exact H.
  - exact H.
  - destruct H as [H|H]; [left; exact H | right; now apply IH].
Qed.

(** * the visible part of a bucket: its sequence, its keys, its plain values, and WHICH keys are nested
    buckets - but not what is inside them *)
Definition erase_e (e : entry) : entry := match e with Val v => Val v | Sub _ _ => Sub 0 [] end.
Definition erase (l : list (bytes * entry)) : list (bytes * entry) :=
  map (fun ke => (fst ke, erase_e (snd ke))) l.
Definition view (b : bucket) : bucket := (fst b, erase (snd b)).

Lemma lookup_erase k l : lookup k (erase l) = option_map erase_e (lookup k l).
Proof.
  induction l as [|[k' e'] l IH]; [reflexivity|].
  cbn [erase map fst snd lookup]. destruct (bcmp k k'); try reflexivity. exact IH.
Qed.

Lemma insert_erase k e l : erase (insert k e l) = insert k (erase_e e) (erase l).
Proof.
  induction l as [|[k' e'] l IH]; [reflexivity|].
  cbn [erase map fst snd insert]. destruct (bcmp k k'); try reflexivity.
  cbn [map fst snd]. f_equal. exact IH.
Qed.

Lemma remove_erase k l : erase (remove k l) = remove k (erase l).
Proof.
  induction l as [|[k' e'] l IH]; [reflexivity|].
  cbn [erase map fst snd remove]. destruct (bcmp k k'); try reflexivity.
  cbn [map fst snd]. f_equal. exact IH.
Qed.

Lemma keys_sorted_erase l : keys_sorted (erase l) = keys_sorted l.
Proof. unfold erase. apply (keys_sorted_map (fun ke => erase_e (snd ke))). Qed.

Lemma listing_view b : listing (view b) = listing b.
Proof.
  unfold listing, view, erase. cbn [snd]. rewrite map_map. apply map_ext.
  intros [k [v|s es]]; reflexivity.
Qed.

Lemma key_n_view b : key_n (view b) = key_n b.
Proof.
  unfold key_n, view, erase. cbn [snd]. f_equal.
  induction (snd b) as [|[k [v|s es]] l IH]; cbn [map filter fst snd erase_e length]; auto.
Qed.

Lemma view_sorted b1 b2 : view b1 = view b2 -> keys_sorted (snd b1) = keys_sorted (snd b2).
Proof.
  unfold view. intros H. inversion H as [[H1 H2]]. now rewrite <- (keys_sorted_erase (snd b1)), H2, keys_sorted_erase.
Qed.

(** [same_view q r' r]: the bucket at path [q] looks the same in both trees (or is absent from both) *)
Definition same_view (q : list bytes) (r' r : bucket) : Prop :=
  option_map view (resolve q r') = option_map view (resolve q r).

Lemma same_view_refl q r : same_view q r r.
Proof. reflexivity. Qed.

Lemma same_view_trans q r1 r2 r3 : same_view q r1 r2 -> same_view q r2 r3 -> same_view q r1 r3.
Proof. unfold same_view. congruence. Qed.

Lemma same_view_of_eq q r' r : resolve q r' = resolve q r -> same_view q r' r.
Proof. unfold same_view. now intros ->. Qed.

Lemma same_view_none q r' r : same_view q r' r -> resolve q r = None -> resolve q r' = None.
Proof. unfold same_view. intros H R. rewrite R in H. destruct (resolve q r'); [discriminate | reflexivity]. Qed.

Lemma same_view_get q k r' r : same_view q r' r -> get q k r' = get q k r.
Proof.
  unfold same_view, get. destruct (resolve q r') as [b'|], (resolve q r) as [b|]; cbn [option_map]; intros H;
    try discriminate; [|reflexivity].
  injection H as H1 H2.
  assert (L : option_map erase_e (lookup k (snd b')) = option_map erase_e (lookup k (snd b)))
    by (now rewrite <- !lookup_erase, H2).
  destruct (lookup k (snd b')) as [[v'|s' es']|], (lookup k (snd b)) as [[v|s es]|]; cbn in L;
    try discriminate; try reflexivity. now inversion L.
Qed.

Lemma same_view_sequence q r' r : same_view q r' r -> sequence q r' = sequence q r.
Proof.
  unfold same_view, sequence. destruct (resolve q r') as [b'|], (resolve q r) as [b|]; cbn [option_map]; intros H;
    try discriminate; [|reflexivity].
  injection H as H1 H2. now rewrite H1.
Qed.

Lemma same_view_listing q r' r : same_view q r' r ->
  option_map listing (resolve q r') = option_map listing (resolve q r).
Proof.
  unfold same_view. destruct (resolve q r') as [b'|], (resolve q r) as [b|]; cbn [option_map]; intros H;
    try discriminate; [|reflexivity].
  assert (H1 : view b' = view b) by congruence. f_equal. now rewrite <- (listing_view b'), <- (listing_view b), H1.
Qed.

Lemma same_view_key_n q r' r : same_view q r' r ->
  option_map key_n (resolve q r') = option_map key_n (resolve q r).
Proof.
  unfold same_view. destruct (resolve q r') as [b'|], (resolve q r) as [b|]; cbn [option_map]; intros H;
    try discriminate; [|reflexivity].
  assert (H1 : view b' = view b) by congruence. f_equal. now rewrite <- (key_n_view b'), <- (key_n_view b), H1.
Qed.

(** * paths *)
Definition extends (p q : list bytes) : Prop := exists r, q = p ++ r.   (* p is a prefix of q *)

Lemma is_prefix_cons a p b q : is_prefix (a :: p) (b :: q) = beq a b && is_prefix p q.
Proof.
  unfold is_prefix. cbn [length combine forallb fst snd Nat.leb].
  destruct (beq a b), (length p <=? length q)%nat; reflexivity.
Qed.

Lemma is_prefix_spec p : forall q, is_prefix p q = true <-> extends p q.
Proof.
  induction p as [|a p IH]; intros q.
  - split; [intros _; exists q; reflexivity | reflexivity].
  - destruct q as [|b q].
    + split; [discriminate | intros [r H]; discriminate].
    + rewrite is_prefix_cons, andb_true_iff, beq_eq, IH. split.
      * intros [-> [r ->]]. exists r. reflexivity.
      * intros [r H]. cbn [app] in H. inversion H; subst. split; [reflexivity | exists r; reflexivity].
Qed.

Lemma extends_refl p : extends p p.
Proof. exists []. now rewrite app_nil_r. Qed.

Lemma is_prefix_refl p : is_prefix p p = true.
Proof. apply is_prefix_spec, extends_refl. Qed.

(** two paths are comparable (one a prefix of the other) or they part ways at some name *)
Lemma path_cases p : forall q,
  extends p q \/ (exists a r, p = q ++ a :: r) \/
  (exists c a b p' q', a <> b /\ p = c ++ a :: p' /\ q = c ++ b :: q').
Proof.
  induction p as [|a p IH]; intros q.
  - left. exists q. reflexivity.
  - destruct q as [|b q].
    + right; left. exists a, p. reflexivity.
    + destruct (bytes_eq_dec a b) as [->|Hne].
      * destruct (IH q) as [[r ->]|[[a' [r ->]]|[c [a' [b' [p' [q' [Hne [-> ->]]]]]]]]].
        -- left. exists r. reflexivity.
        -- right; left. exists a', r. reflexivity.
        -- right; right. exists (b :: c), a', b', p', q'. repeat split; auto.
      * right; right. exists [], a, b, p, q. repeat split; auto.
Qed.

Lemma extends_dec p q : extends p q \/ ~ extends p q.
Proof.
  destruct (is_prefix p q) eqn:E.
  - left. now apply is_prefix_spec.
  - right. intros H. apply is_prefix_spec in H. congruence.
Qed.

(** * update: basic laws *)
Lemma update_self p : forall root b, resolve p root = Some b -> update p b root = root.
Proof.
  induction p as [|n p IH]; intros root b H; cbn [resolve update] in *; [now inversion H|].
  destruct (lookup n (snd root)) as [[v|s es]|] eqn:L; try discriminate.
  rewrite (IH _ _ H). destruct root as [sr lr]. cbn [fst snd] in *. f_equal. now apply insert_lookup_same.
Qed.

Lemma update_unresolved p nb : forall root, resolve p root = None -> update p nb root = root.
Proof.
  induction p as [|n p IH]; intros root H; cbn [resolve update] in *; [discriminate|].
  destruct (lookup n (snd root)) as [[v|s es]|] eqn:L; try reflexivity.
  rewrite (IH _ H). destruct root as [sr lr]. cbn [fst snd] in *. f_equal. now apply insert_lookup_same.
Qed.

Lemma resolve_update_through p r nb root b0 : resolve p root = Some b0 ->
  resolve (p ++ r) (update p nb root) = resolve r nb.
Proof. intros R. rewrite resolve_app. now rewrite (resolve_update p nb root b0 R). Qed.

Lemma resolve_update_above q r nb root bq : resolve q root = Some bq ->
  resolve q (update (q ++ r) nb root) = Some (update r nb bq).
Proof. intros R. rewrite (update_app q r nb root bq R). now apply (resolve_update q _ root bq). Qed.

Lemma resolve_update_diverge c a b q' p' nb : a <> b -> forall root,
  resolve (c ++ a :: q') (update (c ++ b :: p') nb root) = resolve (c ++ a :: q') root.
Proof.
  intros Hne. induction c as [|n c IH]; intros root.
  - cbn [app update]. destruct (lookup b (snd root)) as [[v|s es]|] eqn:L; try reflexivity.
    destruct (update p' nb (s, es)) as [s' es']. cbn [resolve fst snd].
    now rewrite (lookup_replace_other b _ _ a _ L Hne).
  - cbn [app update resolve]. destruct (lookup n (snd root)) as [[v|s es]|] eqn:L; rewrite ?L; try reflexivity.
    destruct (update (c ++ b :: p') nb (s, es)) as [s' es'] eqn:U. cbn [fst snd].
    rewrite lookup_insert_same. rewrite <- U. apply IH.
Qed.

(** an update strictly below a bucket does not change what that bucket looks like *)
Lemma view_update_below a r nb bq : view (update (a :: r) nb bq) = view bq.
Proof.
  cbn [update]. destruct (lookup a (snd bq)) as [[v|s es]|] eqn:L; try reflexivity.
  destruct (update r nb (s, es)) as [s' es']. unfold view. cbn [fst snd]. f_equal.
  rewrite insert_erase. apply insert_lookup_same. rewrite lookup_erase, L. reflexivity.
Qed.

(** FRAME 1: replacing the bucket at [p] by anything is invisible at every path that does not pass through [p] *)
Theorem update_view_frame p q nb root : ~ extends p q -> same_view q (update p nb root) root.
Proof.
  intros Hne. destruct (path_cases p q) as [H|[[a [r ->]]|[c [a [b [p' [q' [Hab [-> ->]]]]]]]]].
  - contradiction.
  - destruct (resolve q root) as [bq|] eqn:R.
    + unfold same_view. rewrite (resolve_update_above q (a :: r) nb root bq R), R. cbn [option_map].
      now rewrite view_update_below.
    + rewrite update_unresolved; [apply same_view_refl|]. rewrite resolve_app, R. reflexivity.
  - apply same_view_of_eq. apply resolve_update_diverge. congruence.
Qed.

(** FRAME 2: a change of the bucket at [p] that touches only its key [n] is invisible everywhere except at [p]
    itself and below [p ++ [n]] *)
Definition agree_except (n : bytes) (l' l : list (bytes * entry)) : Prop :=
  forall a, a <> n -> lookup a l' = lookup a l.

Theorem update_local_frame p n b nb root q :
  resolve p root = Some b -> agree_except n (snd nb) (snd b) ->
  q <> p -> ~ extends (p ++ [n]) q -> same_view q (update p nb root) root.
Proof.
  intros R Hag Hq Hn. destruct (extends_dec p q) as [[r ->]|Hne]; [|now apply update_view_frame].
  destruct r as [|a r]; [now rewrite app_nil_r in Hq|].
  assert (Ha : a <> n). { intros ->. apply Hn. exists r. now rewrite <- app_assoc. }
  apply same_view_of_eq. rewrite (resolve_update_through p (a :: r) nb root b R).
  rewrite resolve_app, R. cbn [resolve]. now rewrite (Hag a Ha).
Qed.

(** [lookup_insert_other] of SpecProofs holds without its sortedness hypothesis *)
Lemma lookup_insert_other_any k k2 e l : k2 <> k -> lookup k2 (insert k e l) = lookup k2 l.
Proof.
  intros Hne. apply bcmp_neq in Hne. induction l as [|[k' e'] l IH]; cbn [insert lookup].
  - destruct (bcmp k2 k) eqn:E; congruence.
  - destruct (bcmp k k') eqn:E; cbn [lookup].
    + apply bcmp_eq in E. subst k'. destruct (bcmp k2 k); congruence.
    + destruct (bcmp k2 k) eqn:E2; try congruence.
      rewrite (bcmp_lt_trans _ _ _ E2 E). reflexivity.
    + destruct (bcmp k2 k'); try reflexivity. exact IH.
Qed.

Lemma agree_except_insert n e l : agree_except n (insert n e l) l.
Proof. intros a Ha. now apply lookup_insert_other_any. Qed.

Lemma agree_except_remove n l : keys_sorted l = true -> agree_except n (remove n l) l.
Proof. intros Hs a Ha. apply lookup_remove_other; [exact Hs | now apply bcmp_neq]. Qed.

Lemma agree_except_replace n e e0 l : lookup n l = Some e0 -> agree_except n (insert n e l) l.
Proof. intros L a Ha. now apply (lookup_replace_other n e e0). Qed.

(** the sortedness hypothesis used below: the bucket at [p] (if any) has strictly increasing keys *)
Definition sorted_at (p : list bytes) (root : bucket) : Prop :=
  forall b, resolve p root = Some b -> keys_sorted (snd b) = true.

(** * 1. CreateBucket *)
Lemma create_bucket_inv p n root root' : create_bucket p n root = (ENone, root') ->
  exists b, resolve p root = Some b /\ (len n =? 0) = false /\ lookup n (snd b) = None /\
            root' = update p (fst b, insert n (Sub 0 []) (snd b)) root.
Proof.
  unfold create_bucket. destruct (resolve p root) as [b|] eqn:R; [|discriminate].
  destruct (len n =? 0) eqn:Hn; [discriminate|].
  destruct (lookup n (snd b)) as [[v|s es]|] eqn:L; try discriminate.
  intros H. inversion H. exists b. repeat split; auto.
Qed.

(** the new bucket exists, is empty and has sequence 0; nothing is below it *)
Theorem create_bucket_new p n root root' : create_bucket p n root = (ENone, root') ->
  resolve (p ++ [n]) root' = Some (0, []).
Proof.
  intros H. destruct (create_bucket_inv _ _ _ _ H) as [b [R [Hn [L ->]]]].
  rewrite (resolve_update_through p [n] _ root b R). cbn [resolve snd]. now rewrite lookup_insert_same.
Qed.

Theorem create_bucket_new_leaf p n root root' a r : create_bucket p n root = (ENone, root') ->
  resolve (p ++ n :: a :: r) root' = None.
Proof.
  intros H. pose proof (create_bucket_new _ _ _ _ H) as N.
  replace (p ++ n :: a :: r) with ((p ++ [n]) ++ a :: r) by (now rewrite <- app_assoc).
  rewrite resolve_app, N. reflexivity.
Qed.

(** the parent: same sequence, the new name added, every other key of the parent untouched *)
Theorem create_bucket_parent p n root root' : create_bucket p n root = (ENone, root') ->
  exists b b', resolve p root = Some b /\ resolve p root' = Some b' /\ fst b' = fst b /\
               lookup n (snd b) = None /\ lookup n (snd b') = Some (Sub 0 []) /\
               forall k, k <> n -> lookup k (snd b') = lookup k (snd b).
Proof.
  intros H. destruct (create_bucket_inv _ _ _ _ H) as [b [R [Hn [L ->]]]].
  exists b, (fst b, insert n (Sub 0 []) (snd b)). repeat split; auto.
  - apply (resolve_update p _ root b R).
  - cbn [snd]. apply lookup_insert_same.
  - cbn [snd]. apply agree_except_insert.
Qed.

(** everything else: every bucket other than the parent and the new one looks the same *)
Theorem create_bucket_frame p n root root' q : create_bucket p n root = (ENone, root') ->
  q <> p -> ~ extends (p ++ [n]) q -> same_view q root' root.
Proof.
  intros H Hq Hn. destruct (create_bucket_inv _ _ _ _ H) as [b [R [Hn0 [L ->]]]].
  apply (update_local_frame p n b); auto. cbn [snd]. apply agree_except_insert.
Qed.

(** buckets below the parent other than the new one are literally unchanged *)
Theorem create_bucket_frame_below p n root root' a r : create_bucket p n root = (ENone, root') ->
  a <> n -> resolve (p ++ a :: r) root' = resolve (p ++ a :: r) root.
Proof.
  intros H Ha. destruct (create_bucket_inv _ _ _ _ H) as [b [R [Hn0 [L ->]]]].
  rewrite (resolve_update_through p (a :: r) _ root b R). rewrite resolve_app, R. cbn [resolve snd].
  now rewrite (agree_except_insert n (Sub 0 []) (snd b) a Ha).
Qed.

(** creating it again fails with EBucketExists (and changes nothing) *)
Theorem create_bucket_twice p n root root' : create_bucket p n root = (ENone, root') ->
  create_bucket p n root' = (EBucketExists, root').
Proof.
  intros H. destruct (create_bucket_inv _ _ _ _ H) as [b [R [Hn [L ->]]]].
  unfold create_bucket. rewrite (resolve_update p _ root b R), Hn. cbn [snd]. now rewrite lookup_insert_same.
Qed.

(** CreateBucketIfNotExists agrees with CreateBucket when the name is free and is the identity when the bucket exists *)
Theorem create_bucket_if_not_exists_spec p n root root' :
  create_bucket_if_not_exists p n root = (ENone, root') ->
  (create_bucket p n root = (ENone, root')) \/
  (root' = root /\ exists s es, resolve (p ++ [n]) root = Some (s, es)).
Proof.
  unfold create_bucket_if_not_exists, create_bucket. destruct (resolve p root) as [b|] eqn:R; [|discriminate].
  destruct (len n =? 0) eqn:Hn; [discriminate|].
  destruct (lookup n (snd b)) as [[v|s es]|] eqn:L; try discriminate.
  - intros H. inversion H; subst. right. split; [reflexivity|]. exists s, es.
    rewrite resolve_app, R. cbn [resolve]. now rewrite L.
  - intros H. left. exact H.
Qed.

(** * 2. DeleteBucket *)
Lemma delete_bucket_inv p n root root' : delete_bucket p n root = (ENone, root') ->
  exists b s es, resolve p root = Some b /\ lookup n (snd b) = Some (Sub s es) /\
                 root' = update p (fst b, remove n (snd b)) root.
Proof.
  unfold delete_bucket. destruct (resolve p root) as [b|] eqn:R; [|discriminate].
  destruct (lookup n (snd b)) as [[v|s es]|] eqn:L; try discriminate.
  intros H. inversion H. exists b, s, es. repeat split; auto.
Qed.

(** the bucket is gone ... *)
Theorem delete_bucket_gone p n root root' : sorted_at p root -> delete_bucket p n root = (ENone, root') ->
  resolve (p ++ [n]) root' = None.
Proof.
  intros Hs H. destruct (delete_bucket_inv _ _ _ _ H) as [b [s [es [R [L ->]]]]].
  rewrite (resolve_update_through p [n] _ root b R). cbn [resolve snd].
  now rewrite (lookup_remove_same n (snd b) (Hs b R)).
Qed.

(** ... together with everything that was nested in it, at any depth *)
Theorem delete_bucket_subtree_gone p n root root' r : sorted_at p root -> delete_bucket p n root = (ENone, root') ->
  resolve (p ++ n :: r) root' = None.
Proof.
  intros Hs H. pose proof (delete_bucket_gone _ _ _ _ Hs H) as N.
  replace (p ++ n :: r) with ((p ++ [n]) ++ r) by (now rewrite <- app_assoc).
  rewrite resolve_app, N. reflexivity.
Qed.

Theorem delete_bucket_parent p n root root' : sorted_at p root -> delete_bucket p n root = (ENone, root') ->
  exists b b', resolve p root = Some b /\ resolve p root' = Some b' /\ fst b' = fst b /\
               lookup n (snd b') = None /\
               forall k, k <> n -> lookup k (snd b') = lookup k (snd b).
Proof.
  intros Hs H. destruct (delete_bucket_inv _ _ _ _ H) as [b [s [es [R [L ->]]]]].
  exists b, (fst b, remove n (snd b)). repeat split; auto.
  - apply (resolve_update p _ root b R).
  - cbn [snd]. apply lookup_remove_same. now apply Hs.
  - cbn [snd]. apply agree_except_remove. now apply Hs.
Qed.

Theorem delete_bucket_frame p n root root' q : sorted_at p root -> delete_bucket p n root = (ENone, root') ->
  q <> p -> ~ extends (p ++ [n]) q -> same_view q root' root.
Proof.
  intros Hs H Hq Hn. destruct (delete_bucket_inv _ _ _ _ H) as [b [s [es [R [L ->]]]]].
  apply (update_local_frame p n b); auto. cbn [snd]. apply agree_except_remove. now apply Hs.
Qed.

Theorem delete_bucket_frame_below p n root root' a r : sorted_at p root -> delete_bucket p n root = (ENone, root') ->
  a <> n -> resolve (p ++ a :: r) root' = resolve (p ++ a :: r) root.
Proof.
  intros Hs H Ha. destruct (delete_bucket_inv _ _ _ _ H) as [b [s [es [R [L ->]]]]].
  rewrite (resolve_update_through p (a :: r) _ root b R). rewrite resolve_app, R. cbn [resolve snd].
  now rewrite (agree_except_remove n (snd b) (Hs b R) a Ha).
Qed.

Theorem delete_bucket_twice p n root root' : sorted_at p root -> delete_bucket p n root = (ENone, root') ->
  delete_bucket p n root' = (EBucketNotFound, root').
Proof.
  intros Hs H. destruct (delete_bucket_inv _ _ _ _ H) as [b [s [es [R [L ->]]]]].
  unfold delete_bucket. rewrite (resolve_update p _ root b R). cbn [snd].
  now rewrite (lookup_remove_same n (snd b) (Hs b R)).
Qed.

(** the sortedness hypothesis is needed: in an unsorted parent a second copy of the name may survive *)
Example delete_bucket_needs_sorted :
  let root : bucket := (0, [([2], Sub 0 []); ([1], Val []); ([2], Sub 7 [])]) in
  exists root', delete_bucket [] [2] root = (ENone, root') /\ resolve [[2]] root' = Some (7, []).
Proof. eexists. split; vm_compute; reflexivity. Qed.

(** * 3. MoveBucket *)
Lemma move_bucket_inv src n dst root root' : move_bucket src n dst root = (ENone, root') ->
  exists sb db s es db1,
    resolve src root = Some sb /\ resolve dst root = Some db /\ lookup n (snd sb) = Some (Sub s es) /\
    src <> dst /\ ~ extends (src ++ [n]) dst /\ lookup n (snd db) = None /\
    resolve dst (update src (fst sb, remove n (snd sb)) root) = Some db1 /\
    root' = update dst (fst db1, insert n (Sub s es) (snd db1)) (update src (fst sb, remove n (snd sb)) root).
Proof.
  unfold move_bucket. destruct (resolve src root) as [sb|] eqn:Rs; [|discriminate].
  destruct (resolve dst root) as [db|] eqn:Rd; [|discriminate].
  destruct (lookup n (snd sb)) as [[v|s es]|] eqn:Ls; try discriminate.
  destruct (is_prefix src dst && is_prefix dst src) eqn:P1; [discriminate|].
  destruct (is_prefix (src ++ [n]) dst) eqn:P2; [discriminate|].
  destruct (lookup n (snd db)) as [[v|s2 es2]|] eqn:Ld; try discriminate.
  destruct (resolve dst (update src (fst sb, remove n (snd sb)) root)) as [db1|] eqn:R1; [|discriminate].
  intros H. inversion H. exists sb, db, s, es, db1. repeat split; auto.
  - intros ->. rewrite is_prefix_refl in P1. discriminate.
  - intros E. apply is_prefix_spec in E. congruence.
Qed.

(** the moved bucket arrives intact: same sequence, same entries, whole subtree *)
Theorem move_bucket_arrives src n dst root root' : move_bucket src n dst root = (ENone, root') ->
  resolve (dst ++ [n]) root' = resolve (src ++ [n]) root /\
  exists s es, resolve (src ++ [n]) root = Some (s, es).
Proof.
  intros H. destruct (move_bucket_inv _ _ _ _ _ H) as [sb [db [s [es [db1 [Rs [Rd [Ls [Hne [Hnp [Ld [R1 ->]]]]]]]]]]]].
  rewrite (resolve_update_through dst [n] _ _ db1 R1). cbn [resolve snd]. rewrite lookup_insert_same.
  rewrite resolve_app, Rs. cbn [resolve]. rewrite Ls. split; [reflexivity|]. exists s, es. reflexivity.
Qed.

Theorem move_bucket_subtree src n dst root root' r : move_bucket src n dst root = (ENone, root') ->
  resolve (dst ++ n :: r) root' = resolve (src ++ n :: r) root.
Proof.
  intros H. destruct (move_bucket_arrives _ _ _ _ _ H) as [E _].
  replace (dst ++ n :: r) with ((dst ++ [n]) ++ r) by (now rewrite <- app_assoc).
  replace (src ++ n :: r) with ((src ++ [n]) ++ r) by (now rewrite <- app_assoc).
  now rewrite (resolve_app (dst ++ [n]) r), (resolve_app (src ++ [n]) r), E.
Qed.

(** auxiliary facts shared by the remaining move theorems *)
Lemma move_bucket_facts src n dst root root' :
  sorted_at src root -> move_bucket src n dst root = (ENone, root') ->
  exists sb db s es db1 root1,
    resolve src root = Some sb /\ resolve dst root = Some db /\ lookup n (snd sb) = Some (Sub s es) /\
    lookup n (snd db) = None /\ src <> dst /\ ~ extends (src ++ [n]) dst /\ ~ extends (dst ++ [n]) src /\
    root1 = update src (fst sb, remove n (snd sb)) root /\
    resolve src root1 = Some (fst sb, remove n (snd sb)) /\
    resolve dst root1 = Some db1 /\ view db1 = view db /\
    keys_sorted (snd sb) = true /\
    root' = update dst (fst db1, insert n (Sub s es) (snd db1)) root1 /\
    (forall q, q <> src -> ~ extends (src ++ [n]) q -> same_view q root1 root) /\
    (forall q, q <> dst -> ~ extends (dst ++ [n]) q -> same_view q root' root1).
Proof.
  intros Hss H.
  destruct (move_bucket_inv _ _ _ _ _ H) as [sb [db [s [es [db1 [Rs [Rd [Ls [Hne [Hnp [Ld [R1 E]]]]]]]]]]]].
  pose proof (Hss sb Rs) as Ssb.
  set (root1 := update src (fst sb, remove n (snd sb)) root) in *.
  assert (F1 : forall q, q <> src -> ~ extends (src ++ [n]) q -> same_view q root1 root).
  { intros q Hq Hn. apply (update_local_frame src n sb); auto. cbn [snd]. now apply agree_except_remove. }
  assert (V : view db1 = view db).
  { assert (SV : same_view dst root1 root) by (apply F1; auto).
    unfold same_view in SV. rewrite R1, Rd in SV. cbn in SV. congruence. }
  assert (Hnp2 : ~ extends (dst ++ [n]) src).
  { intros [r E2]. rewrite <- app_assoc in E2. cbn [app] in E2. rewrite E2, resolve_app, Rd in Rs.
    cbn [resolve] in Rs. rewrite Ld in Rs. discriminate. }
  exists sb, db, s, es, db1, root1. repeat split; auto.
  - apply (resolve_update src _ root sb Rs).
  - intros q Hq Hn. rewrite E. apply (update_local_frame dst n db1); auto. cbn [snd]. apply agree_except_insert.
Qed.

(** nothing is left at the old place - in every configuration of [src] and [dst] the reference accepts
    (independent paths, [dst] above [src], [dst] below [src] through another name) *)
Theorem move_bucket_src_gone src n dst root root' :
  sorted_at src root -> move_bucket src n dst root = (ENone, root') ->
  resolve (src ++ [n]) root' = None.
Proof.
  intros Hss H.
  destruct (move_bucket_facts _ _ _ _ _ Hss H)
    as (sb & db & s & es & db1 & root1 & Rs & Rd & Ls & Ld & Hne & Hnp & Hnp2 & E1 & Rs1 & Rd1 & V & Ssb & E & F1 & F2).
  assert (N1 : resolve (src ++ [n]) root1 = None).
  { rewrite resolve_app, Rs1. cbn [resolve snd]. now rewrite (lookup_remove_same n (snd sb) Ssb). }
  apply (same_view_none _ _ root1); [|exact N1]. apply F2.
  - intros E2. apply Hnp. exists []. now rewrite app_nil_r.
  - intros [r E2]. destruct r as [|x r] using rev_ind.
    + rewrite app_nil_r in E2. apply app_inj_tail in E2. destruct E2 as [E2 _]. contradiction.
    + rewrite !app_assoc in E2. apply app_inj_tail in E2. destruct E2 as [E2 _].
      apply Hnp2. exists r. exact E2.
Qed.

Theorem move_bucket_src_subtree_gone src n dst root root' r :
  sorted_at src root -> move_bucket src n dst root = (ENone, root') ->
  resolve (src ++ n :: r) root' = None.
Proof.
  intros Hss H. pose proof (move_bucket_src_gone _ _ _ _ _ Hss H) as N.
  replace (src ++ n :: r) with ((src ++ [n]) ++ r) by (now rewrite <- app_assoc).
  rewrite resolve_app, N. reflexivity.
Qed.

(** every bucket other than [src], [dst] and the moved subtree (old and new place) looks the same *)
Theorem move_bucket_frame src n dst root root' q :
  sorted_at src root -> move_bucket src n dst root = (ENone, root') ->
  q <> src -> q <> dst -> ~ extends (src ++ [n]) q -> ~ extends (dst ++ [n]) q -> same_view q root' root.
Proof.
  intros Hss H Hq1 Hq2 Hn1 Hn2.
  destruct (move_bucket_facts _ _ _ _ _ Hss H)
    as (sb & db & s & es & db1 & root1 & Rs & Rd & Ls & Ld & Hne & Hnp & Hnp2 & E1 & Rs1 & Rd1 & V & Ssb & E & F1 & F2).
  apply (same_view_trans _ _ root1); auto.
Qed.

(** the source bucket looks as before minus the name; the destination as before plus the name *)
Theorem move_bucket_src_view src n dst root root' :
  sorted_at src root -> move_bucket src n dst root = (ENone, root') ->
  exists sb, resolve src root = Some sb /\
             option_map view (resolve src root') = Some (view (fst sb, remove n (snd sb))).
Proof.
  intros Hss H.
  destruct (move_bucket_facts _ _ _ _ _ Hss H)
    as (sb & db & s & es & db1 & root1 & Rs & Rd & Ls & Ld & Hne & Hnp & Hnp2 & E1 & Rs1 & Rd1 & V & Ssb & E & F1 & F2).
  exists sb. split; [exact Rs|]. pose proof (F2 src Hne Hnp2) as SV. unfold same_view in SV.
  rewrite SV, Rs1. reflexivity.
Qed.

Theorem move_bucket_dst_view src n dst root root' :
  sorted_at src root -> move_bucket src n dst root = (ENone, root') ->
  exists db s es, resolve dst root = Some db /\ resolve (src ++ [n]) root = Some (s, es) /\
             option_map view (resolve dst root') = Some (view (fst db, insert n (Sub s es) (snd db))).
Proof.
  intros Hss H.
  destruct (move_bucket_facts _ _ _ _ _ Hss H)
    as (sb & db & s & es & db1 & root1 & Rs & Rd & Ls & Ld & Hne & Hnp & Hnp2 & E1 & Rs1 & Rd1 & V & Ssb & E & F1 & F2).
  exists db, s, es. split; [exact Rd|]. split.
  - rewrite resolve_app, Rs. cbn [resolve]. now rewrite Ls.
  - rewrite E. rewrite (resolve_update dst _ root1 db1 Rd1). cbn [option_map]. f_equal.
    unfold view in *. cbn [fst snd]. injection V as V1 V2. now rewrite !insert_erase, V1, V2.
Qed.

(** the number of plain keys (KeyN) of every bucket outside the moved subtree is unchanged - including the
    two buckets that lost and gained the name *)
Lemma key_n_remove_sub n s es l x y : lookup n l = Some (Sub s es) -> key_n (x, remove n l) = key_n (y, l).
Proof.
  unfold key_n. cbn [snd]. intros H. f_equal. revert H.
  induction l as [|[k' e'] l IH]; cbn [lookup remove]; [discriminate|].
  destruct (bcmp n k'); try discriminate.
  - intros H. inversion H; subst. reflexivity.
  - intros H. cbn [filter snd]. destruct e'; cbn [length]; now rewrite (IH H).
Qed.

Lemma key_n_insert_sub n s es l x y : lookup n l = None -> key_n (x, insert n (Sub s es) l) = key_n (y, l).
Proof.
  unfold key_n. cbn [snd]. intros H. f_equal. revert H.
  induction l as [|[k' e'] l IH]; cbn [lookup insert]; [reflexivity|].
  destruct (bcmp n k'); try discriminate.
  - intros _. reflexivity.
  - intros H. cbn [filter snd]. destruct e'; cbn [length]; now rewrite (IH H).
Qed.

Lemma view_key_n x b : option_map view x = Some (view b) -> option_map key_n x = Some (key_n b).
Proof.
  destruct x as [b'|]; cbn [option_map]; [|discriminate]. intros H.
  assert (H1 : view b' = view b) by congruence. f_equal. now rewrite <- (key_n_view b'), <- (key_n_view b), H1.
Qed.

Definition path_eq_dec : forall p q : list bytes, {p = q} + {p <> q} := list_eq_dec bytes_eq_dec.

Theorem move_bucket_key_n src n dst root root' q :
  sorted_at src root -> move_bucket src n dst root = (ENone, root') ->
  ~ extends (src ++ [n]) q -> ~ extends (dst ++ [n]) q ->
  option_map key_n (resolve q root') = option_map key_n (resolve q root).
Proof.
  intros Hss H Hn1 Hn2.
  destruct (path_eq_dec q src) as [->|Hq1]; [|destruct (path_eq_dec q dst) as [->|Hq2]].
  - destruct (move_bucket_src_view _ _ _ _ _ Hss H) as [sb [Rs V]].
    destruct (move_bucket_inv _ _ _ _ _ H) as (sb' & db & s & es & db1 & Rs' & Rd & Ls & _).
    rewrite Rs in Rs'. inversion Rs'; subst sb'.
    rewrite (view_key_n _ _ V), Rs. cbn [option_map]. f_equal.
    destruct sb as [x0 l0]. cbn [fst snd] in *. exact (key_n_remove_sub n s es l0 x0 x0 Ls).
  - destruct (move_bucket_dst_view _ _ _ _ _ Hss H) as [db [s [es [Rd [_ V]]]]].
    destruct (move_bucket_inv _ _ _ _ _ H) as (sb & db' & s' & es' & db1 & Rs & Rd' & Ls & _ & _ & Ld & _).
    rewrite Rd in Rd'. inversion Rd'; subst db'.
    rewrite (view_key_n _ _ V), Rd. cbn [option_map]. f_equal.
    destruct db as [x0 l0]. cbn [fst snd] in *. exact (key_n_insert_sub n s es l0 x0 x0 Ld).
  - apply same_view_key_n. now apply (move_bucket_frame src n dst).
Qed.

(** the refusals: moving a bucket into itself or below itself is ESameBuckets and changes nothing *)
Theorem move_bucket_into_itself src n dst root :
  extends (src ++ [n]) dst -> fst (move_bucket src n dst root) <> ENone /\ snd (move_bucket src n dst root) = root.
Proof.
  intros Hx. apply is_prefix_spec in Hx. unfold move_bucket.
  destruct (resolve src root) as [sb|]; [|split; [discriminate | reflexivity]].
  destruct (resolve dst root) as [db|]; [|split; [discriminate | reflexivity]].
  destruct (lookup n (snd sb)) as [[v|s es]|]; try (split; [discriminate | reflexivity]).
  destruct (is_prefix src dst && is_prefix dst src); [split; [discriminate | reflexivity]|].
  rewrite Hx. split; [discriminate | reflexivity].
Qed.

(** sortedness of the source bucket is needed for [move_bucket_src_gone] (same reason as for DeleteBucket) *)
Example move_bucket_src_gone_needs_sorted :
  let root : bucket := (0, [([0], Sub 0 []); ([2], Sub 5 []); ([1], Val []); ([2], Sub 7 [])]) in
  exists root', move_bucket [] [2] [[0]] root = (ENone, root') /\
                resolve [[0]; [2]] root' = Some (5, []) /\ resolve [[2]] root' = Some (7, []).
Proof. eexists. repeat split; vm_compute; reflexivity. Qed.

(** * 4. sequences *)
Lemma update_seq_frame p s b root q : resolve p root = Some b -> q <> p ->
  same_view q (update p (s, snd b) root) root.
Proof.
  intros R Hq. destruct (extends_dec p q) as [[r ->]|Hne]; [|now apply update_view_frame].
  destruct r as [|a r]; [now rewrite app_nil_r in Hq|].
  apply same_view_of_eq. rewrite (resolve_update_through p (a :: r) _ root b R).
  rewrite resolve_app, R. reflexivity.
Qed.

Lemma update_seq_get p s b root q k : resolve p root = Some b ->
  get q k (update p (s, snd b) root) = get q k root.
Proof.
  intros R. destruct (path_eq_dec q p) as [->|Hq].
  - unfold get. rewrite (resolve_update p _ root b R), R. reflexivity.
  - apply same_view_get. now apply update_seq_frame.
Qed.

Lemma update_seq_listing p s b root q : resolve p root = Some b ->
  option_map listing (resolve q (update p (s, snd b) root)) = option_map listing (resolve q root).
Proof.
  intros R. destruct (path_eq_dec q p) as [->|Hq].
  - rewrite (resolve_update p _ root b R), R. reflexivity.
  - apply same_view_listing. now apply update_seq_frame.
Qed.

Theorem next_sequence_spec p root v root' : next_sequence p root = (ENone, v, root') ->
  exists b, resolve p root = Some b /\ v = (fst b + 1) mod M64 /\
            sequence p root' = (ENone, v) /\ resolve p root' = Some (v, snd b).
Proof.
  unfold next_sequence. destruct (resolve p root) as [b|] eqn:R; [|discriminate].
  intros H. inversion H; subst. exists b. repeat split; auto.
  - unfold sequence. now rewrite (resolve_update p _ root b R).
  - apply (resolve_update p _ root b R).
Qed.

(** nothing but that one counter changes: every Get, every listing, every other bucket's sequence *)
Theorem next_sequence_get_frame p root v root' q k : next_sequence p root = (ENone, v, root') ->
  get q k root' = get q k root.
Proof.
  unfold next_sequence. destruct (resolve p root) as [b|] eqn:R; [|discriminate].
  intros H. inversion H; subst. now apply update_seq_get.
Qed.

Theorem next_sequence_listing_frame p root v root' q : next_sequence p root = (ENone, v, root') ->
  option_map listing (resolve q root') = option_map listing (resolve q root).
Proof.
  unfold next_sequence. destruct (resolve p root) as [b|] eqn:R; [|discriminate].
  intros H. inversion H; subst. now apply update_seq_listing.
Qed.

Theorem next_sequence_frame p root v root' q : next_sequence p root = (ENone, v, root') ->
  q <> p -> same_view q root' root.
Proof.
  unfold next_sequence. destruct (resolve p root) as [b|] eqn:R; [|discriminate].
  intros H Hq. inversion H; subst. now apply update_seq_frame.
Qed.

Theorem next_sequence_seq_frame p root v root' q : next_sequence p root = (ENone, v, root') ->
  q <> p -> sequence q root' = sequence q root.
Proof. intros H Hq. apply same_view_sequence. now apply (next_sequence_frame p root v). Qed.

Theorem next_sequence_wraps p root b : resolve p root = Some b -> fst b = MAXU64 ->
  exists root', next_sequence p root = (ENone, 0, root').
Proof.
  intros R Hm. unfold next_sequence. rewrite R, Hm. eexists. reflexivity.
Qed.

Theorem set_sequence_spec p v root root' : set_sequence p v root = (ENone, root') ->
  exists b, resolve p root = Some b /\ sequence p root' = (ENone, v mod M64) /\
            resolve p root' = Some (v mod M64, snd b).
Proof.
  unfold set_sequence. destruct (resolve p root) as [b|] eqn:R; [|discriminate].
  intros H. inversion H; subst. exists b. repeat split; auto.
  - unfold sequence. now rewrite (resolve_update p _ root b R).
  - apply (resolve_update p _ root b R).
Qed.

Theorem set_sequence_small p v root root' : set_sequence p v root = (ENone, root') -> v < M64 ->
  sequence p root' = (ENone, v).
Proof.
  intros H Hv. destruct (set_sequence_spec _ _ _ _ H) as [b [_ [S _]]]. now rewrite (N.mod_small v M64 Hv) in S.
Qed.

Theorem set_sequence_get_frame p v root root' q k : set_sequence p v root = (ENone, root') ->
  get q k root' = get q k root.
Proof.
  unfold set_sequence. destruct (resolve p root) as [b|] eqn:R; [|discriminate].
  intros H. inversion H; subst. now apply update_seq_get.
Qed.

Theorem set_sequence_listing_frame p v root root' q : set_sequence p v root = (ENone, root') ->
  option_map listing (resolve q root') = option_map listing (resolve q root).
Proof.
  unfold set_sequence. destruct (resolve p root) as [b|] eqn:R; [|discriminate].
  intros H. inversion H; subst. now apply update_seq_listing.
Qed.

Theorem set_sequence_frame p v root root' q : set_sequence p v root = (ENone, root') ->
  q <> p -> same_view q root' root.
Proof.
  unfold set_sequence. destruct (resolve p root) as [b|] eqn:R; [|discriminate].
  intros H Hq. inversion H; subst. now apply update_seq_frame.
Qed.

Theorem set_then_next p v root root1 w root2 : set_sequence p v root = (ENone, root1) ->
  next_sequence p root1 = (ENone, w, root2) -> w = (v mod M64 + 1) mod M64.
Proof.
  intros H1 H2. destruct (set_sequence_spec _ _ _ _ H1) as [b [_ [_ R1]]].
  destruct (next_sequence_spec _ _ _ _ H2) as [b1 [R1' [E _]]]. rewrite R1 in R1'. inversion R1'; subst b1.
  exact E.
Qed.

(** * 5. Put / Delete: frame across buckets *)
Lemma put_inv p k v vl root root' : put p k v vl root = (ENone, root') ->
  exists b, resolve p root = Some b /\ (forall s es, lookup k (snd b) <> Some (Sub s es)) /\
            root' = update p (fst b, insert k (Val v) (snd b)) root.
Proof.
  unfold put. destruct (resolve p root) as [b|] eqn:R; [|discriminate].
  destruct (len k =? 0); [discriminate|]. destruct (max_key_size <? len k); [discriminate|].
  destruct (max_value_size <? vl); [discriminate|].
  destruct (lookup k (snd b)) as [[v0|s es]|] eqn:L; try discriminate;
    intros H; inversion H; exists b; (split; [reflexivity|]); (split; [|reflexivity]); intros s es; rewrite L; discriminate.
Qed.

Theorem put_at p k v vl root root' : put p k v vl root = (ENone, root') ->
  exists b, resolve p root = Some b /\ resolve p root' = Some (fst b, insert k (Val v) (snd b)).
Proof.
  intros H. destruct (put_inv _ _ _ _ _ _ H) as [b [R [_ ->]]]. exists b. split; [exact R|].
  apply (resolve_update p _ root b R).
Qed.

(** every bucket strictly below the one written to is literally unchanged.  The aliasing case - a path that
    goes THROUGH the key just written - cannot name a bucket before (Put refuses to overwrite a bucket:
    EIncompatibleValue) nor after (the key now holds a plain value). *)
Theorem put_frame_below p k v vl root root' a r : put p k v vl root = (ENone, root') ->
  resolve (p ++ a :: r) root' = resolve (p ++ a :: r) root.
Proof.
  intros H. destruct (put_inv _ _ _ _ _ _ H) as [b [R [Hnb ->]]].
  rewrite (resolve_update_through p (a :: r) _ root b R). rewrite resolve_app, R. cbn [resolve snd].
  destruct (bytes_eq_dec a k) as [->|Ha].
  - rewrite lookup_insert_same. destruct (lookup k (snd b)) as [[v0|s es]|] eqn:L; try reflexivity.
    exfalso. exact (Hnb s es eq_refl).
  - now rewrite (agree_except_insert k (Val v) (snd b) a Ha).
Qed.

Theorem put_through_key_none p k v vl root root' r : put p k v vl root = (ENone, root') ->
  resolve (p ++ k :: r) root' = None /\ resolve (p ++ k :: r) root = None.
Proof.
  intros H. destruct (put_inv _ _ _ _ _ _ H) as [b [R [Hnb ->]]]. split.
  - rewrite (resolve_update_through p (k :: r) _ root b R). cbn [resolve snd]. now rewrite lookup_insert_same.
  - rewrite resolve_app, R. cbn [resolve]. destruct (lookup k (snd b)) as [[v0|s es]|] eqn:L; try reflexivity.
    exfalso. exact (Hnb s es eq_refl).
Qed.

(** every bucket other than the one written to looks the same *)
Theorem put_frame_view p k v vl root root' q : put p k v vl root = (ENone, root') ->
  q <> p -> same_view q root' root.
Proof.
  intros H Hq. destruct (extends_dec p q) as [[r ->]|Hne].
  - destruct r as [|a r]; [now rewrite app_nil_r in Hq|]. apply same_view_of_eq. now apply (put_frame_below p k v vl).
  - destruct (put_inv _ _ _ _ _ _ H) as [b [R [Hnb ->]]]. now apply update_view_frame.
Qed.

(** in the bucket written to: only key [k] changes; the sequence does not *)
Theorem put_same_bucket p k v vl root root' : put p k v vl root = (ENone, root') ->
  exists b b', resolve p root = Some b /\ resolve p root' = Some b' /\ fst b' = fst b /\
               lookup k (snd b') = Some (Val v) /\ forall k2, k2 <> k -> lookup k2 (snd b') = lookup k2 (snd b).
Proof.
  intros H. destruct (put_inv _ _ _ _ _ _ H) as [b [R [Hnb ->]]].
  exists b, (fst b, insert k (Val v) (snd b)). repeat split; auto.
  - apply (resolve_update p _ root b R).
  - cbn [snd]. apply lookup_insert_same.
  - cbn [snd]. apply agree_except_insert.
Qed.

(** THE frame property of Put: every other (path, key) pair reads the same *)
Theorem put_get_frame p k v vl root root' q k2 : put p k v vl root = (ENone, root') ->
  (q <> p \/ k2 <> k) -> get q k2 root' = get q k2 root.
Proof.
  intros H Hd. destruct (path_eq_dec q p) as [->|Hq].
  - destruct Hd as [Hd|Hd]; [contradiction|].
    destruct (put_same_bucket _ _ _ _ _ _ H) as [b [b' [R [R' [_ [_ F]]]]]].
    unfold get. rewrite R, R'. now rewrite (F k2 Hd).
  - apply same_view_get. now apply (put_frame_view p k v vl).
Qed.

Theorem put_sequence_frame p k v vl root root' q : put p k v vl root = (ENone, root') ->
  sequence q root' = sequence q root.
Proof.
  intros H. destruct (path_eq_dec q p) as [->|Hq].
  - destruct (put_same_bucket _ _ _ _ _ _ H) as [b [b' [R [R' [F _]]]]].
    unfold sequence. rewrite R, R'. now rewrite F.
  - apply same_view_sequence. now apply (put_frame_view p k v vl).
Qed.

(** Put never creates or destroys buckets *)
Theorem put_resolves_same p k v vl root root' q : put p k v vl root = (ENone, root') ->
  (resolve q root' = None <-> resolve q root = None).
Proof.
  intros H. destruct (path_eq_dec q p) as [->|Hq].
  - destruct (put_at _ _ _ _ _ _ H) as [b [R R']]. rewrite R, R'. split; discriminate.
  - pose proof (put_frame_view _ _ _ _ _ _ q H Hq) as SV. unfold same_view in SV.
    destruct (resolve q root'), (resolve q root); cbn in SV; try discriminate; split; congruence.
Qed.

Lemma delete_inv p k root root' : delete p k root = (ENone, root') ->
  exists b, resolve p root = Some b /\
    ((lookup k (snd b) = None /\ root' = root) \/
     (exists v, lookup k (snd b) = Some (Val v) /\ root' = update p (fst b, remove k (snd b)) root)).
Proof.
  unfold delete. destruct (resolve p root) as [b|] eqn:R; [|discriminate].
  destruct (lookup k (snd b)) as [[v0|s es]|] eqn:L; try discriminate; intros H; inversion H; exists b;
    (split; [reflexivity|]).
  - right. exists v0. split; [exact L | reflexivity].
  - left. split; [exact L | reflexivity].
Qed.

Theorem delete_frame_below p k root root' a r : sorted_at p root -> delete p k root = (ENone, root') ->
  resolve (p ++ a :: r) root' = resolve (p ++ a :: r) root.
Proof.
  intros Hs H. destruct (delete_inv _ _ _ _ H) as [b [R [[L ->]|[v [L ->]]]]]; [reflexivity|].
  rewrite (resolve_update_through p (a :: r) _ root b R). rewrite resolve_app, R. cbn [resolve snd].
  destruct (bytes_eq_dec a k) as [->|Ha].
  - rewrite (lookup_remove_same k (snd b) (Hs b R)), L. reflexivity.
  - now rewrite (agree_except_remove k (snd b) (Hs b R) a Ha).
Qed.

Theorem delete_frame_view p k root root' q : sorted_at p root -> delete p k root = (ENone, root') ->
  q <> p -> same_view q root' root.
Proof.
  intros Hs H Hq. destruct (extends_dec p q) as [[r ->]|Hne].
  - destruct r as [|a r]; [now rewrite app_nil_r in Hq|]. apply same_view_of_eq. now apply (delete_frame_below p k).
  - destruct (delete_inv _ _ _ _ H) as [b [R [[L ->]|[v [L ->]]]]]; [apply same_view_refl | now apply update_view_frame].
Qed.

Theorem delete_same_bucket p k root root' : sorted_at p root -> delete p k root = (ENone, root') ->
  exists b b', resolve p root = Some b /\ resolve p root' = Some b' /\ fst b' = fst b /\
               lookup k (snd b') = None /\ forall k2, k2 <> k -> lookup k2 (snd b') = lookup k2 (snd b).
Proof.
  intros Hs H. destruct (delete_inv _ _ _ _ H) as [b [R [[L ->]|[v [L ->]]]]].
  - exists b, b. repeat split; auto.
  - exists b, (fst b, remove k (snd b)). repeat split; auto.
    + apply (resolve_update p _ root b R).
    + cbn [snd]. apply lookup_remove_same. now apply Hs.
    + cbn [snd]. apply agree_except_remove. now apply Hs.
Qed.

Theorem delete_get_frame p k root root' q k2 : sorted_at p root -> delete p k root = (ENone, root') ->
  (q <> p \/ k2 <> k) -> get q k2 root' = get q k2 root.
Proof.
  intros Hs H Hd. destruct (path_eq_dec q p) as [->|Hq].
  - destruct Hd as [Hd|Hd]; [contradiction|].
    destruct (delete_same_bucket _ _ _ _ Hs H) as [b [b' [R [R' [_ [_ F]]]]]].
    unfold get. rewrite R, R'. now rewrite (F k2 Hd).
  - apply same_view_get. now apply (delete_frame_view p k).
Qed.

Theorem delete_sequence_frame p k root root' q : sorted_at p root -> delete p k root = (ENone, root') ->
  sequence q root' = sequence q root.
Proof.
  intros Hs H. destruct (path_eq_dec q p) as [->|Hq].
  - destruct (delete_same_bucket _ _ _ _ Hs H) as [b [b' [R [R' [F _]]]]].
    unfold sequence. rewrite R, R'. now rewrite F.
  - apply same_view_sequence. now apply (delete_frame_view p k).
Qed.

(** Put's frame needs no sortedness at all ([lookup_insert_other_any]); Delete's does: *)
Example delete_frame_needs_sorted :
  let root : bucket := (0, [([2], Val [1]); ([1], Val [3]); ([2], Val [7])]) in
  exists root', delete [] [2] root = (ENone, root') /\ get [] [2] root' = (ENone, Some [7]).
Proof. eexists. split; vm_compute; reflexivity. Qed.

(** * 6. well-formedness: keys strictly increasing at EVERY level, preserved by every operation *)
Inductive wf_tree : list (bytes * entry) -> Prop :=
| wf_tree_intro l : keys_sorted l = true -> (forall k s es, In (k, Sub s es) l -> wf_tree es) -> wf_tree l.
Definition wf_bucket (b : bucket) : Prop := wf_tree (snd b).

Lemma wf_tree_sorted' l : wf_tree l -> keys_sorted l = true.
Proof. now intros [l' H _]. Qed.

Lemma wf_tree_sub l k s es : wf_tree l -> lookup k l = Some (Sub s es) -> wf_tree es.
Proof. intros [l' _ H] L. apply (H k s es). now apply lookup_In. Qed.

Lemma wf_empty : wf_tree [].
Proof. constructor; [reflexivity | intros k s es []]. Qed.

Lemma wf_resolve p : forall root b, wf_bucket root -> resolve p root = Some b -> wf_bucket b.
Proof.
  induction p as [|n p IH]; intros root b W R; cbn [resolve] in R; [now inversion R; subst|].
  destruct (lookup n (snd root)) as [[v|s es]|] eqn:L; try discriminate.
  apply (IH (s, es) b); [|exact R]. unfold wf_bucket. cbn [snd]. now apply (wf_tree_sub (snd root) n s es).
Qed.

Theorem wf_sorted_at root p : wf_bucket root -> sorted_at p root.
Proof. intros W b R. apply wf_tree_sorted'. now apply (wf_resolve p root b). Qed.

Lemma wf_insert k e l : wf_tree l -> (forall s es, e = Sub s es -> wf_tree es) -> wf_tree (insert k e l).
Proof.
  intros [l' Hs Hsub] He. constructor; [now apply insert_sorted|].
  intros k0 s0 es0 Hin. apply In_insert in Hin. destruct Hin as [Heq|Hin].
  - inversion Heq; subst. now apply (He s0 es0).
  - now apply (Hsub k0 s0 es0).
Qed.

Lemma wf_remove k l : wf_tree l -> wf_tree (remove k l).
Proof.
  intros [l' Hs Hsub]. constructor; [now apply remove_sorted|].
  intros k0 s0 es0 Hin. apply In_remove in Hin. now apply (Hsub k0 s0 es0).
Qed.

Lemma wf_update p nb : forall root, wf_bucket root -> wf_bucket nb -> wf_bucket (update p nb root).
Proof.
  induction p as [|n p IH]; intros root W Wnb; cbn [update]; [exact Wnb|].
  destruct (lookup n (snd root)) as [[v|s es]|] eqn:L; try exact W.
  destruct (update p nb (s, es)) as [s' es'] eqn:U. unfold wf_bucket. cbn [snd].
  apply wf_insert; [exact W|]. intros s0 es0 E. inversion E; subst s0 es0.
  change es' with (snd (s', es')). rewrite <- U. apply IH; [|exact Wnb].
  unfold wf_bucket. cbn [snd]. now apply (wf_tree_sub (snd root) n s es).
Qed.

Lemma create_bucket_wf p n root e root' : wf_bucket root -> create_bucket p n root = (e, root') -> wf_bucket root'.
Proof.
  intros W. unfold create_bucket. destruct (resolve p root) as [b|] eqn:R; [|now intros H; inversion H; subst].
  destruct (len n =? 0); [now intros H; inversion H; subst|].
  destruct (lookup n (snd b)) as [[v|s es]|]; intros H; inversion H; subst; try exact W.
  apply wf_update; [exact W|]. unfold wf_bucket. cbn [snd]. apply wf_insert.
  - apply (wf_resolve p root b W R).
  - intros s es E. inversion E. apply wf_empty.
Qed.

Lemma create_bucket_if_not_exists_wf p n root e root' :
  wf_bucket root -> create_bucket_if_not_exists p n root = (e, root') -> wf_bucket root'.
Proof.
  intros W. unfold create_bucket_if_not_exists.
  destruct (resolve p root) as [b|] eqn:R; [|now intros H; inversion H; subst].
  destruct (len n =? 0); [now intros H; inversion H; subst|].
  destruct (lookup n (snd b)) as [[v|s es]|]; intros H; inversion H; subst; try exact W.
  apply wf_update; [exact W|]. unfold wf_bucket. cbn [snd]. apply wf_insert.
  - apply (wf_resolve p root b W R).
  - intros s es E. inversion E. apply wf_empty.
Qed.

Lemma delete_bucket_wf p n root e root' : wf_bucket root -> delete_bucket p n root = (e, root') -> wf_bucket root'.
Proof.
  intros W. unfold delete_bucket. destruct (resolve p root) as [b|] eqn:R; [|now intros H; inversion H; subst].
  destruct (lookup n (snd b)) as [[v|s es]|]; intros H; inversion H; subst; try exact W.
  apply wf_update; [exact W|]. unfold wf_bucket. cbn [snd]. apply wf_remove. apply (wf_resolve p root b W R).
Qed.

Lemma move_bucket_wf src n dst root e root' : wf_bucket root -> move_bucket src n dst root = (e, root') -> wf_bucket root'.
Proof.
  intros W. unfold move_bucket.
  destruct (resolve src root) as [sb|] eqn:Rs; [|now intros H; inversion H; subst].
  destruct (resolve dst root) as [db|] eqn:Rd; [|now intros H; inversion H; subst].
  destruct (lookup n (snd sb)) as [[v|s es]|] eqn:Ls; try (now intros H; inversion H; subst).
  destruct (is_prefix src dst && is_prefix dst src); [now intros H; inversion H; subst|].
  destruct (is_prefix (src ++ [n]) dst); [now intros H; inversion H; subst|].
  destruct (lookup n (snd db)) as [[v|s2 es2]|]; try (now intros H; inversion H; subst).
  assert (W1 : wf_bucket (update src (fst sb, remove n (snd sb)) root)).
  { apply wf_update; [exact W|]. unfold wf_bucket. cbn [snd]. apply wf_remove. apply (wf_resolve src root sb W Rs). }
  destruct (resolve dst (update src (fst sb, remove n (snd sb)) root)) as [db1|] eqn:R1;
    [|now intros H; inversion H; subst].
  intros H. inversion H; subst. apply wf_update; [exact W1|]. unfold wf_bucket. cbn [snd]. apply wf_insert.
  - apply (wf_resolve dst _ db1 W1 R1).
  - intros s0 es0 E. inversion E; subst. apply (wf_tree_sub (snd sb) n s0 es0); [|exact Ls].
    apply (wf_resolve src root sb W Rs).
Qed.

Lemma put_wf p k v vl root e root' : wf_bucket root -> put p k v vl root = (e, root') -> wf_bucket root'.
Proof.
  intros W. unfold put. destruct (resolve p root) as [b|] eqn:R; [|now intros H; inversion H; subst].
  destruct (len k =? 0); [now intros H; inversion H; subst|].
  destruct (max_key_size <? len k); [now intros H; inversion H; subst|].
  destruct (max_value_size <? vl); [now intros H; inversion H; subst|].
  assert (Wn : wf_bucket (update p (fst b, insert k (Val v) (snd b)) root)).
  { apply wf_update; [exact W|]. unfold wf_bucket. cbn [snd]. apply wf_insert.
    - apply (wf_resolve p root b W R).
    - intros s es E. discriminate. }
  destruct (lookup k (snd b)) as [[v0|s es]|]; intros H; inversion H; subst; assumption.
Qed.

Lemma delete_wf p k root e root' : wf_bucket root -> delete p k root = (e, root') -> wf_bucket root'.
Proof.
  intros W. unfold delete. destruct (resolve p root) as [b|] eqn:R; [|now intros H; inversion H; subst].
  destruct (lookup k (snd b)) as [[v|s es]|]; intros H; inversion H; subst; try exact W.
  apply wf_update; [exact W|]. unfold wf_bucket. cbn [snd]. apply wf_remove. apply (wf_resolve p root b W R).
Qed.

Lemma set_sequence_wf p v root e root' : wf_bucket root -> set_sequence p v root = (e, root') -> wf_bucket root'.
Proof.
  intros W. unfold set_sequence. destruct (resolve p root) as [b|] eqn:R; intros H; inversion H; subst; [|exact W].
  apply wf_update; [exact W|]. unfold wf_bucket. cbn [snd]. apply (wf_resolve p root b W R).
Qed.

Lemma next_sequence_wf p root e v root' : wf_bucket root -> next_sequence p root = (e, v, root') -> wf_bucket root'.
Proof.
  intros W. unfold next_sequence. destruct (resolve p root) as [b|] eqn:R; intros H; inversion H; subst; [|exact W].
  apply wf_update; [exact W|]. unfold wf_bucket. cbn [snd]. apply (wf_resolve p root b W R).
Qed.

(** every API call, in either kind of transaction, successful or not, maps well-formed to well-formed *)
Theorem exec_wf w o root e out root' : wf_bucket root -> exec w o root = (e, out, root') -> wf_bucket root'.
Proof.
  intros W. unfold exec. destruct (is_write o && negb w); [now intros H; inversion H; subst|].
  destruct o as [p n|p n|p n|s n d|p k v|p k|p k|p|p v|p].
  - destruct (create_bucket p n root) as [e0 r0] eqn:O. intros H; inversion H; subst. eapply create_bucket_wf; eauto.
  - destruct (create_bucket_if_not_exists p n root) as [e0 r0] eqn:O. intros H; inversion H; subst.
    eapply create_bucket_if_not_exists_wf; eauto.
  - destruct (delete_bucket p n root) as [e0 r0] eqn:O. intros H; inversion H; subst. eapply delete_bucket_wf; eauto.
  - destruct (move_bucket s n d root) as [e0 r0] eqn:O. intros H; inversion H; subst. eapply move_bucket_wf; eauto.
  - destruct (put p k v (len v) root) as [e0 r0] eqn:O. intros H; inversion H; subst. eapply put_wf; eauto.
  - destruct (get p k root) as [e0 v0]. intros H; inversion H; subst. exact W.
  - destruct (delete p k root) as [e0 r0] eqn:O. intros H; inversion H; subst. eapply delete_wf; eauto.
  - destruct (sequence p root) as [e0 v0]. intros H; inversion H; subst. exact W.
  - destruct (set_sequence p v root) as [e0 r0] eqn:O. intros H; inversion H; subst. eapply set_sequence_wf; eauto.
  - destruct (next_sequence p root) as [[e0 v0] r0] eqn:O. intros H; inversion H; subst. eapply next_sequence_wf; eauto.
Qed.

(** a whole history of calls *)
Fixpoint exec_all (w : bool) (os : list op) (root : bucket) : bucket :=
  match os with [] => root | o :: r => exec_all w r (snd (exec w o root)) end.

Theorem exec_all_wf w os : forall root, wf_bucket root -> wf_bucket (exec_all w os root).
Proof.
  induction os as [|o os IH]; intros root W; [exact W|]. cbn [exec_all]. apply IH.
  destruct (exec w o root) as [[e out] r] eqn:X. cbn [snd]. now apply (exec_wf w o root e out r).
Qed.

Corollary exec_all_wf_from_empty w os : wf_bucket (exec_all w os (0, [])).
Proof. apply exec_all_wf. apply wf_empty. Qed.

(** [wf_bucket] is exactly "the bucket at every path is sorted" ([sorted_at] everywhere) *)
Section entry_induction.
  Variable P : entry -> Prop.
  Hypothesis HV : forall v, P (Val v).
  Hypothesis HS : forall s es, (forall k e, In (k, e) es -> P e) -> P (Sub s es).
  Lemma entry_ind_nested : forall e, P e.
  Proof.
    fix IH 1. intros [v|s es]; [apply HV|]. apply HS.
    induction es as [|[k' e'] r IHr]; intros k e Hin.
    - destruct Hin.
    - destruct Hin as [Heq|Hin].
      + assert (E : e' = e) by exact (f_equal snd Heq). rewrite <- E. apply IH.
      + exact (IHr k e Hin).
  Qed.
End entry_induction.

Lemma sorted_head_lt k0 e0 l : keys_sorted ((k0, e0) :: l) = true -> forall k e, In (k, e) l -> bcmp k0 k = Lt.
Proof.
  revert k0 e0. induction l as [|[k1 e1] l IH]; intros k0 e0 Hs k e Hin; [destruct Hin|].
  apply keys_sorted_cons in Hs. destruct Hs as [Hlb Hs]. cbn in Hlb. destruct Hin as [Heq|Hin].
  - inversion Heq; subst. exact Hlb.
  - apply (bcmp_lt_trans _ _ _ Hlb). now apply (IH k1 e1 Hs k e).
Qed.

Lemma In_lookup_sorted l : keys_sorted l = true -> forall k e, In (k, e) l -> lookup k l = Some e.
Proof.
  induction l as [|[k0 e0] l IH]; intros Hs k e Hin; [destruct Hin|].
  cbn [lookup]. destruct Hin as [Heq|Hin].
  - inversion Heq; subst. now rewrite bcmp_refl.
  - pose proof (sorted_head_lt _ _ _ Hs k e Hin) as Hlt. apply bcmp_gt_lt in Hlt. rewrite Hlt.
    apply IH; [|exact Hin]. apply keys_sorted_cons in Hs. tauto.
Qed.

Theorem wf_bucket_iff root : wf_bucket root <-> forall p, sorted_at p root.
Proof.
  split; [intros W p; now apply wf_sorted_at|].
  destruct root as [s0 es0]. unfold wf_bucket. cbn [snd].
  assert (G : forall e, match e with Val _ => True
                        | Sub s es => (forall p, sorted_at p (s, es)) -> wf_tree es end).
  { apply entry_ind_nested; [exact (fun _ => I)|]. intros s es IH Hall.
    assert (Hs : keys_sorted es = true) by (apply (Hall [] (s, es)); reflexivity).
    constructor; [exact Hs|]. intros k s1 es1 Hin.
    apply (IH k (Sub s1 es1) Hin). intros p b R. apply (Hall (k :: p) b).
    cbn [resolve snd]. now rewrite (In_lookup_sorted es Hs k (Sub s1 es1) Hin). }
  exact (G (Sub s0 es0)).
Qed.

Print Assumptions update_view_frame.
Print Assumptions update_local_frame.
Print Assumptions create_bucket_new.
Print Assumptions create_bucket_new_leaf.
Print Assumptions create_bucket_parent.
Print Assumptions create_bucket_frame.
Print Assumptions create_bucket_frame_below.
Print Assumptions create_bucket_twice.
Print Assumptions create_bucket_if_not_exists_spec.
Print Assumptions delete_bucket_gone.
Print Assumptions delete_bucket_subtree_gone.
Print Assumptions delete_bucket_parent.
Print Assumptions delete_bucket_frame.
Print Assumptions delete_bucket_frame_below.
Print Assumptions delete_bucket_twice.
Print Assumptions delete_bucket_needs_sorted.
Print Assumptions move_bucket_arrives.
Print Assumptions move_bucket_subtree.
Print Assumptions move_bucket_src_gone.
Print Assumptions move_bucket_src_subtree_gone.
Print Assumptions move_bucket_frame.
Print Assumptions move_bucket_src_view.
Print Assumptions move_bucket_dst_view.
Print Assumptions move_bucket_key_n.
Print Assumptions move_bucket_into_itself.
Print Assumptions move_bucket_src_gone_needs_sorted.
Print Assumptions next_sequence_spec.
Print Assumptions next_sequence_get_frame.
Print Assumptions next_sequence_listing_frame.
Print Assumptions next_sequence_frame.
Print Assumptions next_sequence_seq_frame.
Print Assumptions next_sequence_wraps.
Print Assumptions set_sequence_spec.
Print Assumptions set_sequence_small.
Print Assumptions set_sequence_get_frame.
Print Assumptions set_sequence_listing_frame.
Print Assumptions set_sequence_frame.
Print Assumptions set_then_next.
Print Assumptions put_at.
Print Assumptions put_frame_below.
Print Assumptions put_through_key_none.
Print Assumptions put_frame_view.
Print Assumptions put_same_bucket.
Print Assumptions put_get_frame.
Print Assumptions put_sequence_frame.
Print Assumptions put_resolves_same.
Print Assumptions delete_frame_below.
Print Assumptions delete_frame_view.
Print Assumptions delete_same_bucket.
Print Assumptions delete_get_frame.
Print Assumptions delete_sequence_frame.
Print Assumptions delete_frame_needs_sorted.
Print Assumptions exec_wf.
Print Assumptions exec_all_wf.
Print Assumptions exec_all_wf_from_empty.
Print Assumptions wf_bucket_iff.
