(** Proofs about the ARRAY allocator model [allocate_array] (Freelist.v) and about the decision
    procedure [alloc_ok] for the Array backend. *)
From Bbolt Require Import Base BaseProofs Freelist.
From Coq Require Import ZifyN ZifyNat ZifyBool.

(** * strict sortedness *)

Lemma sortedb_cons x l :
  sortedb (x :: l) = true <-> (forall y, In y l -> x < y) /\ sortedb l = true.
Proof.
  revert x. induction l as [|y l IH]; intros x.
  - split; [intros _; split; [intros y []|reflexivity] | reflexivity].
  - change (sortedb (x :: y :: l)) with ((x <? y) && sortedb (y :: l)).
    rewrite andb_true_iff, N.ltb_lt. split.
    + intros [Hxy Hs]. split; [|exact Hs]. apply IH in Hs. destruct Hs as [Hy _].
      intros z [<-|Hz]; [exact Hxy|]. specialize (Hy z Hz). lia.
    + intros [Hall Hs]. split; [|exact Hs]. apply Hall. now left.
Qed.

Lemma sortedb_app a b :
  sortedb (a ++ b) = true <->
  sortedb a = true /\ sortedb b = true /\ (forall x y, In x a -> In y b -> x < y).
Proof.
  induction a as [|x a IH].
  - cbn [app]. split.
    + intros H. split; [reflexivity|]. split; [exact H|]. intros x y [].
    + intros [_ [H _]]. exact H.
  - rewrite <- app_comm_cons. rewrite !sortedb_cons. split.
    + intros [Hx Hs]. apply IH in Hs. destruct Hs as [Ha [Hb Hab]].
      split; [split; [|exact Ha]|split; [exact Hb|]].
      * intros y Hy. apply Hx. apply in_app_iff. now left.
      * intros u v [<-|Hu] Hv; [apply Hx, in_app_iff; now right | now apply Hab].
    + intros [[Hx Ha] [Hb Hab]]. split.
      * intros y Hy. apply in_app_iff in Hy. destruct Hy as [Hy|Hy]; [now apply Hx|].
        apply Hab; [now left|exact Hy].
      * apply IH. split; [exact Ha|]. split; [exact Hb|].
        intros u v Hu Hv. apply Hab; [now right|exact Hv].
Qed.

(** * runs *)

Lemma run_nat_snoc p m : run_nat p (S m) = run_nat p m ++ [p + N.of_nat m].
Proof.
  revert p. induction m as [|m IH]; intros p.
  - cbn. now rewrite N.add_0_r.
  - change (run_nat p (S (S m))) with (p :: run_nat (p + 1) (S m)).
    rewrite IH. cbn [run_nat app]. do 3 f_equal. lia.
Qed.

Lemma run_snoc p k : run p (k + 1) = run p k ++ [p + k].
Proof.
  unfold run. replace (N.to_nat (k + 1)) with (S (N.to_nat k)) by lia.
  rewrite run_nat_snoc. now rewrite N2Nat.id.
Qed.

Lemma run_1 p : run p 1 = [p].
Proof. reflexivity. Qed.

Lemma sortedb_run_nat p m : sortedb (run_nat p m) = true.
Proof.
  revert p. induction m as [|m IH]; intros p; [reflexivity|].
  cbn [run_nat]. apply sortedb_cons. split; [|apply IH].
  intros y Hy. apply run_nat_in in Hy. lia.
Qed.

Lemma sortedb_run p k : sortedb (run p k) = true.
Proof. apply sortedb_run_nat. Qed.

(** * filter helpers *)

Lemma filter_id {A} (f : A -> bool) l : (forall x, In x l -> f x = true) -> filter f l = l.
Proof.
  induction l as [|x l IH]; intros H; [reflexivity|]. cbn [filter].
  rewrite (H x (or_introl eq_refl)). f_equal. apply IH. intros y Hy. apply H. now right.
Qed.

Lemma filter_none {A} (f : A -> bool) l : (forall x, In x l -> f x = false) -> filter f l = [].
Proof.
  induction l as [|x l IH]; intros H; [reflexivity|]. cbn [filter].
  rewrite (H x (or_introl eq_refl)). apply IH. intros y Hy. apply H. now right.
Qed.

(** removing a run from a sorted list that contains it as a segment *)
Lemma remove_ids_segment a p n b :
  sortedb (a ++ run p n ++ b) = true ->
  remove_ids (run p n) (a ++ run p n ++ b) = a ++ b.
Proof.
  intros Hs. apply sortedb_app in Hs. destruct Hs as [_ [Hs Hab]].
  apply sortedb_app in Hs. destruct Hs as [_ [_ Hrb]].
  unfold remove_ids. rewrite !filter_app.
  rewrite (filter_none _ (run p n)).
  2:{ intros x Hx. apply negb_false_iff, memN_in. exact Hx. }
  cbn [app]. f_equal.
  - apply filter_id. intros x Hx. apply negb_true_iff, memN_false. intros Hr.
    specialize (Hab x x Hx). rewrite in_app_iff in Hab. specialize (Hab (or_introl Hr)). lia.
  - apply filter_id. intros x Hx. apply negb_true_iff, memN_false. intros Hr.
    specialize (Hrb x x Hr Hx). lia.
Qed.

Lemma remove_run_segment {A} (a r b : list A) (i n : nat) :
  length r = n -> (1 <= n)%nat -> i = (length a + n - 1)%nat ->
  firstn (S i - n) (a ++ r ++ b) ++ skipn (S i) (a ++ r ++ b) = a ++ b.
Proof.
  intros Hr Hn Hi.
  replace (S i - n)%nat with (length a) by lia.
  replace (S i) with (length (a ++ r)) by (rewrite app_length; lia).
  rewrite firstn_app, firstn_all, Nat.sub_diag, firstn_O, app_nil_r.
  rewrite app_assoc, skipn_app, skipn_all, Nat.sub_diag. reflexivity.
Qed.

(** * the scan of array.Allocate *)

Definition has_run (n : N) (ids : list N) (q : N) : Prop := forall x, In x (run q n) -> In x ids.

Lemma scan_ok n : forall rest i initial previd,
  Forall (fun x => 2 <= x) rest -> exists r, scan rest n i initial previd = Ok r.
Proof.
  induction rest as [|id rest IH]; intros i initial previd HF.
  - eexists. reflexivity.
  - inversion HF as [|? ? Hid HF']; subst. cbn [scan].
    destruct (N.leb_spec id 1) as [Hle|_]; [lia|].
    destruct (_ =? n); [eexists; reflexivity|]. apply IH. exact HF'.
Qed.

(** loop invariant: [pre] = the ids already visited *)
Definition scan_inv (n : N) (ids pre : list N) (initial previd : N) : Prop :=
  (pre = [] /\ previd = 0) \/
  (exists pre', pre = pre' ++ run initial (previd - initial + 1) /\ 2 <= initial /\ initial <= previd /\
     previd - initial + 1 < n /\ forall q, has_run n ids q -> initial <= q).

Lemma segment_le pre' p k x :
  sortedb (pre' ++ run p k) = true -> 1 <= k -> In x (pre' ++ run p k) -> x <= p + k - 1.
Proof.
  intros Hs Hk Hx. apply sortedb_app in Hs. destruct Hs as [_ [_ Hlt]].
  apply in_app_iff in Hx. destruct Hx as [Hx|Hx].
  - assert (Hp : In p (run p k)) by (apply run_in; lia). specialize (Hlt x p Hx Hp). lia.
  - apply run_in in Hx. lia.
Qed.

Lemma scan_step n ids pre id rest initial previd :
  0 < n -> ids = pre ++ id :: rest -> sortedb ids = true -> 2 <= id ->
  scan_inv n ids pre initial previd ->
  let initial' := (if (previd =? 0) || negb (id - previd =? 1) then id else initial) in
  exists pre'', pre ++ [id] = pre'' ++ run initial' (id - initial' + 1) /\ 2 <= initial' /\ initial' <= id /\
     id - initial' + 1 <= n /\ forall q, has_run n ids q -> initial' <= q.
Proof.
  intros Hn Hids Hs Hid Hinv initial'.
  assert (Hs' := Hs). rewrite Hids in Hs'. apply sortedb_app in Hs'. destruct Hs' as [Hspre [Hsrest Hlt]].
  apply sortedb_cons in Hsrest. destruct Hsrest as [Hgt _].
  assert (Hreset : forall pre'', pre ++ [id] = pre'' ++ [id] ->
            (forall q, has_run n ids q -> id <= q) ->
            exists pre'', pre ++ [id] = pre'' ++ run id (id - id + 1) /\ 2 <= id /\ id <= id /\
              id - id + 1 <= n /\ forall q, has_run n ids q -> id <= q).
  { intros pre'' E HJ. exists pre''. rewrite N.sub_diag, N.add_0_l, run_1.
    repeat split; try lia; assumption. }
  destruct Hinv as [[Hpre Hprev]|[pre' [Hpre [Hi2 [Hip [Hk HJ]]]]]].
  - subst pre previd. subst initial'. cbn [N.eqb orb].
    apply (Hreset []); [reflexivity|].
    intros q Hq. assert (Hin : In q ids) by (apply Hq, run_in; lia).
    rewrite Hids in Hin. cbn [app] in Hin. destruct Hin as [<-|Hin]; [lia|].
    specialize (Hgt q Hin). lia.
  - assert (Hle : forall x, In x pre -> x <= previd).
    { intros x Hx. rewrite Hpre in Hx, Hspre. pose proof (segment_le _ _ _ x Hspre ltac:(lia) Hx). lia. }
    assert (Hprevin : In previd pre).
    { rewrite Hpre. apply in_app_iff. right. apply run_in. lia. }
    assert (Hpid : previd < id) by (apply Hlt; [exact Hprevin | now left]).
    subst initial'. destruct (N.eqb_spec previd 0) as [?|_]; [lia|]. cbn [orb].
    destruct (N.eqb_spec (id - previd) 1) as [E|NE]; cbn [negb].
    + exists pre'. replace (id - initial + 1) with ((previd - initial + 1) + 1) by lia.
      rewrite run_snoc, Hpre, <- app_assoc.
      replace (initial + (previd - initial + 1)) with id by lia.
      repeat split; try lia. exact HJ.
    + apply (Hreset pre); [reflexivity|].
      intros q Hq. specialize (HJ q Hq).
      destruct (N.lt_ge_cases q id) as [Hqid|]; [exfalso|assumption].
      assert (Hin : In q ids) by (apply Hq, run_in; lia).
      rewrite Hids in Hin. apply in_app_iff in Hin. destruct Hin as [Hin|Hin].
      2:{ destruct Hin as [<-|Hin]; [lia|]. specialize (Hgt q Hin). lia. }
      pose proof (Hle q Hin) as Hqle.
      assert (Hin1 : In (previd + 1) ids) by (apply Hq, run_in; lia).
      rewrite Hids in Hin1. apply in_app_iff in Hin1. destruct Hin1 as [Hin1|Hin1].
      * specialize (Hle _ Hin1). lia.
      * destruct Hin1 as [E1|Hin1]; [lia|]. specialize (Hgt _ Hin1). lia.
Qed.

Lemma scan_spec n : 0 < n -> forall rest pre initial previd ids p i,
  ids = pre ++ rest -> sortedb ids = true -> Forall (fun x => 2 <= x) ids ->
  scan_inv n ids pre initial previd ->
  scan rest n (length pre) initial previd = Ok (p, i) ->
  (p = 0 /\ forall q, ~ has_run n ids q) \/
  (2 <= p /\ (exists a b, ids = a ++ run p n ++ b /\ i = (length a + N.to_nat n - 1)%nat) /\
   forall q, has_run n ids q -> p <= q).
Proof.
  intros Hn. induction rest as [|id rest IH]; intros pre initial previd ids p i Hids Hs HF Hinv Hscan.
  - cbn [scan] in Hscan. inversion Hscan; subst p i. left. split; [reflexivity|].
    rewrite app_nil_r in Hids. subst ids. intros q Hq.
    destruct Hinv as [[Hpre Hprev]|[pre' [Hpre [Hi2 [Hip [Hk HJ]]]]]].
    + subst pre. apply (Hq q). apply run_in. lia.
    + specialize (HJ q Hq).
      assert (Hin : In (q + n - 1) pre) by (apply Hq, run_in; lia).
      rewrite Hpre in Hin, Hs. pose proof (segment_le _ _ _ _ Hs ltac:(lia) Hin). lia.
  - assert (Hid : 2 <= id).
    { rewrite Forall_forall in HF. apply HF. rewrite Hids. apply in_app_iff. right. now left. }
    cbn [scan] in Hscan. destruct (N.leb_spec id 1) as [?|_]; [lia|].
    pose proof (scan_step n ids pre id rest initial previd Hn Hids Hs Hid Hinv) as Hstep.
    cbv zeta in Hstep.
    set (initial' := if (previd =? 0) || negb (id - previd =? 1) then id else initial) in *.
    destruct Hstep as [pre'' [Hpre'' [Hi2 [Hiid [Hk HJ]]]]].
    assert (Hids' : ids = (pre ++ [id]) ++ rest) by (rewrite <- app_assoc; exact Hids).
    destruct (N.eqb_spec (id - initial' + 1) n) as [E|NE].
    + inversion Hscan; subst p i. right. split; [exact Hi2|]. split; [|exact HJ].
      exists pre'', rest. rewrite E in Hpre''. split.
      * rewrite Hids', Hpre'', <- app_assoc. reflexivity.
      * apply (f_equal (@length N)) in Hpre''. rewrite !app_length, run_length in Hpre''.
        cbn [length] in Hpre''. lia.
    + apply (IH (pre ++ [id]) initial' id ids p i Hids' Hs HF).
      * right. exists pre''. repeat split; try assumption; lia.
      * rewrite app_length. cbn [length]. rewrite Nat.add_1_r. exact Hscan.
Qed.

(** * array.Allocate *)

(** Everything about one call, in one statement: either no run of [n] free ids exists and the call
    returns 0 and leaves the state alone, or it returns the start [p] of the LOWEST run, which is a
    segment [a ++ run p n ++ b] of the free list, and the new free list is [a ++ b]. *)
Lemma allocate_array_spec txid n s :
  sortedb (free s) = true -> Forall (fun x => 2 <= x) (free s) -> 0 < n ->
  (allocate_array txid n s = Ok (0, s) /\ forall q, ~ has_run n (free s) q) \/
  (exists p a b, 2 <= p /\ free s = a ++ run p n ++ b /\ (forall q, has_run n (free s) q -> p <= q) /\
     allocate_array txid n s =
       Ok (p, {| free := a ++ b; pending := pending s; allocs := aset p txid (allocs s); readers := readers s |})).
Proof.
  intros Hs HF Hn. unfold allocate_array.
  destruct (free s) as [|f l] eqn:E.
  - left. split; [reflexivity|]. intros q Hq. apply (Hq q). apply run_in. lia.
  - destruct (scan_ok n (f :: l) 0%nat 0 0 HF) as [[p i] Hscan]. rewrite Hscan. cbn [bindr].
    assert (Hinv : scan_inv n (f :: l) [] 0 0) by (left; split; reflexivity).
    destruct (scan_spec n Hn (f :: l) [] 0 0 (f :: l) p i eq_refl Hs HF Hinv Hscan)
      as [[Hp Hno]|[Hp [[a [b [Hab Hi]]] Hlow]]].
    + left. subst p. cbn [N.eqb]. split; [reflexivity | exact Hno].
    + right. exists p, a, b. destruct (N.eqb_spec p 0) as [?|_]; [lia|].
      split; [exact Hp|]. split; [exact Hab|]. split; [exact Hlow|].
      do 3 f_equal. unfold remove_run. rewrite Hab.
      apply remove_run_segment; [apply run_length | lia | exact Hi].
Qed.

Theorem allocate_array_no_panic txid n s :
  sortedb (free s) = true -> Forall (fun x => 2 <= x) (free s) ->
  allocate_array txid n s <> Panic /\ allocate_array txid n s <> OutOfFuel.
Proof.
  intros _ HF. unfold allocate_array. destruct (free s) as [|f l] eqn:E.
  - split; discriminate.
  - destruct (scan_ok n (f :: l) 0%nat 0 0 HF) as [[p i] Hscan]. rewrite Hscan. cbn [bindr].
    destruct (p =? 0); split; discriminate.
Qed.

Theorem allocate_array_sound txid n s p s' :
  sortedb (free s) = true -> Forall (fun x => 2 <= x) (free s) -> 0 < n ->
  allocate_array txid n s = Ok (p, s') -> p <> 0 ->
  2 <= p /\ (forall x, In x (run p n) -> In x (free s)) /\ free s' = remove_ids (run p n) (free s) /\
  pending s' = pending s /\ readers s' = readers s /\ alookup p (allocs s') = Some txid.
Proof.
  intros Hs HF Hn Hal Hp0.
  destruct (allocate_array_spec txid n s Hs HF Hn) as [[H0 _]|[p1 [a [b [Hp [Hab [_ H1]]]]]]].
  - rewrite H0 in Hal. inversion Hal. congruence.
  - rewrite H1 in Hal. inversion Hal; subst p1 s'. clear Hal. cbn [free pending readers allocs].
    split; [exact Hp|]. split; [|split; [|split; [reflexivity|split; [reflexivity|]]]].
    + intros x Hx. rewrite Hab. apply in_app_iff. right. apply in_app_iff. now left.
    + rewrite Hab in Hs |- *. symmetry. apply remove_ids_segment. exact Hs.
    + unfold aset. cbn [alookup]. now rewrite N.eqb_refl.
Qed.

Theorem allocate_array_complete txid n s s' :
  sortedb (free s) = true -> Forall (fun x => 2 <= x) (free s) -> 0 < n ->
  allocate_array txid n s = Ok (0, s') ->
  s' = s /\ ~ (exists q, forall x, In x (run q n) -> In x (free s)).
Proof.
  intros Hs HF Hn Hal.
  destruct (allocate_array_spec txid n s Hs HF Hn) as [[H0 Hno]|[p1 [a [b [Hp [Hab [_ H1]]]]]]].
  - rewrite H0 in Hal. injection Hal as <-. split; [reflexivity|]. intros [q Hq]. exact (Hno q Hq).
  - rewrite H1 in Hal. inversion Hal. lia.
Qed.

Theorem allocate_array_lowest txid n s p s' :
  sortedb (free s) = true -> Forall (fun x => 2 <= x) (free s) -> 0 < n ->
  allocate_array txid n s = Ok (p, s') -> p <> 0 ->
  forall q, (forall x, In x (run q n) -> In x (free s)) -> p <= q.
Proof.
  intros Hs HF Hn Hal Hp0 q Hq.
  destruct (allocate_array_spec txid n s Hs HF Hn) as [[H0 _]|[p1 [a [b [Hp [Hab [Hlow H1]]]]]]].
  - rewrite H0 in Hal. inversion Hal. congruence.
  - rewrite H1 in Hal. inversion Hal; subst p1. exact (Hlow q Hq).
Qed.

(** * spans: the maximal runs of a sorted list *)

Lemma spans_aux_spec : forall l start size,
  1 <= size -> sortedb l = true -> (forall y, In y l -> start + size <= y) ->
  (forall x, (start <= x < start + size \/ In x l) ->
     exists s z, In (s, z) (spans_aux start size l) /\ s <= x < s + z) /\
  (forall s z, In (s, z) (spans_aux start size l) ->
     1 <= z /\ start <= s /\ start + size <= s + z /\ ~ In (s + z) l /\
     (forall x, s <= x < s + z -> start <= x < start + size \/ In x l)).
Proof.
  induction l as [|y l IH]; intros start size Hsz Hs Hge.
  - cbn [spans_aux]. split.
    + intros x [Hx|[]]. exists start, size. split; [now left | exact Hx].
    + intros s z [E|[]]. inversion E; subst s z. split; [lia|]. split; [lia|]. split; [lia|]. split.
      * intros [].
      * intros x Hx. left. exact Hx.
  - apply sortedb_cons in Hs. destruct Hs as [Hgt Hs].
    assert (Hy : start + size <= y) by (apply Hge; now left).
    cbn [spans_aux]. destruct (N.eqb_spec y (start + size)) as [E|NE].
    + destruct (IH start (size + 1) ltac:(lia) Hs) as [IHa IHb].
      { intros u Hu. specialize (Hgt u Hu). lia. }
      split.
      * intros x Hx. apply IHa. destruct Hx as [Hx|[<-|Hx]]; [left; lia | left; lia | now right].
      * intros s z Hin. destruct (IHb s z Hin) as [Hz [Hss [Hsz' [Hnin Hsub]]]].
        split; [lia|]. split; [lia|]. split; [lia|]. split.
        -- intros [E1|Hin1]; [lia | exact (Hnin Hin1)].
        -- intros x Hx. destruct (Hsub x Hx) as [H1|H1]; [|right; now right].
           destruct (N.eq_dec x y) as [->|Hxy]; [right; now left | left; lia].
    + destruct (IH y 1 ltac:(lia) Hs) as [IHa IHb].
      { intros u Hu. specialize (Hgt u Hu). lia. }
      split.
      * intros x [Hx|[<-|Hx]].
        -- exists start, size. split; [now left | exact Hx].
        -- destruct (IHa y ltac:(left; lia)) as [s [z [Hin Hr]]]. exists s, z. split; [now right | exact Hr].
        -- destruct (IHa x (or_intror Hx)) as [s [z [Hin Hr]]]. exists s, z. split; [now right | exact Hr].
      * intros s z [E|Hin].
        -- inversion E; subst s z. split; [lia|]. split; [lia|]. split; [lia|]. split.
           ++ intros [E1|Hin1]; [lia|]. specialize (Hgt _ Hin1). lia.
           ++ intros x Hx. left. exact Hx.
        -- destruct (IHb s z Hin) as [Hz [Hss [Hsz' [Hnin Hsub]]]].
           split; [lia|]. split; [lia|]. split; [lia|]. split.
           ++ intros [E1|Hin1]; [lia | exact (Hnin Hin1)].
           ++ intros x Hx. right. destruct (Hsub x Hx) as [H1|H1]; [left; lia | now right].
Qed.

(** every id lies in some span *)
Lemma spans_cover l x : sortedb l = true -> In x l ->
  exists s z, In (s, z) (spans l) /\ s <= x < s + z.
Proof.
  intros Hs Hx. destruct l as [|y l]; [destruct Hx|]. cbn [spans].
  apply sortedb_cons in Hs. destruct Hs as [Hgt Hs].
  destruct (spans_aux_spec l y 1 ltac:(lia) Hs) as [Ha _].
  { intros u Hu. specialize (Hgt u Hu). lia. }
  apply Ha. destruct Hx as [<-|Hx]; [left; lia | now right].
Qed.

(** a span is a non-empty run of ids of the list, and the id right after it is not in the list *)
Lemma spans_sound l s z : sortedb l = true -> In (s, z) (spans l) ->
  1 <= z /\ ~ In (s + z) l /\ forall x, s <= x < s + z -> In x l.
Proof.
  intros Hs Hin. destruct l as [|y l]; [destruct Hin|]. cbn [spans] in Hin.
  apply sortedb_cons in Hs. destruct Hs as [Hgt Hs].
  destruct (spans_aux_spec l y 1 ltac:(lia) Hs) as [_ Hb].
  { intros u Hu. specialize (Hgt u Hu). lia. }
  destruct (Hb s z Hin) as [Hz [Hss [Hsz' [Hnin Hsub]]]].
  split; [exact Hz|]. split.
  - intros [E|H1]; [lia | exact (Hnin H1)].
  - intros x Hx. destruct (Hsub x Hx) as [H1|H1]; [left; lia | now right].
Qed.

(** an n-run inside a strictly sorted list lies inside one span *)
Lemma run_in_span l n q : sortedb l = true -> 0 < n -> has_run n l q ->
  exists s z, In (s, z) (spans l) /\ s <= q /\ q + n <= s + z.
Proof.
  intros Hs Hn Hq.
  assert (Hin : In q l) by (apply Hq, run_in; lia).
  destruct (spans_cover l q Hs Hin) as [s [z [Hsp Hr]]].
  exists s, z. split; [exact Hsp|]. split; [lia|].
  destruct (spans_sound l s z Hs Hsp) as [_ [Hnin _]].
  destruct (N.le_gt_cases (q + n) (s + z)) as [?|Hgt]; [assumption|].
  exfalso. apply Hnin. apply Hq, run_in. lia.
Qed.

(** [hm_can_allocate] decides the existence of a run of [n] free ids *)
Theorem hm_can_allocate_iff fb n : sortedb fb = true -> 0 < n ->
  (hm_can_allocate fb n = true <-> exists q, forall x, In x (run q n) -> In x fb).
Proof.
  intros Hs Hn. unfold hm_can_allocate. rewrite existsb_exists. split.
  - intros [[s z] [Hin Hle]]. cbn [snd] in Hle. apply N.leb_le in Hle.
    destruct (spans_sound fb s z Hs Hin) as [_ [_ Hsub]].
    exists s. intros x Hx. apply run_in in Hx. apply Hsub. lia.
  - intros [q Hq]. destruct (run_in_span fb n q Hs Hn Hq) as [s [z [Hin [H1 H2]]]].
    exists (s, z). split; [exact Hin|]. cbn [snd]. apply N.leb_le. lia.
Qed.

(** * the decision procedure [alloc_ok] (Array backend) *)

Lemma eqlN_true_eq a b : eqlN a b = true -> a = b.
Proof.
  revert b; induction a as [|x a IH]; intros [|y b]; cbn [eqlN]; try discriminate; [reflexivity|].
  rewrite andb_true_iff. intros [E H]. apply N.eqb_eq in E. f_equal; auto.
Qed.

Theorem alloc_ok_array_sound fb n ret fa : sortedb fb = true -> alloc_ok Array fb n ret fa = true ->
  (ret = 0 -> fa = fb /\ (0 < n -> ~ exists q, forall x, In x (run q n) -> In x fb)) /\
  (ret <> 0 -> 2 <= ret /\ 0 < n /\ (forall x, In x (run ret n) -> In x fb) /\ fa = remove_ids (run ret n) fb).
Proof.
  intros Hs Hok. unfold alloc_ok in Hok. destruct (N.eqb_spec ret 0) as [E0|NE0].
  - split; [intros _|intros H; contradiction].
    apply andb_true_iff in Hok. destruct Hok as [Hno Heq]. split; [now apply eqlN_true_eq|].
    intros Hn Hex. apply (hm_can_allocate_iff fb n Hs Hn) in Hex. rewrite Hex in Hno.
    apply N.ltb_lt in Hn. rewrite Hn in Hno. discriminate.
  - split; [intros H; contradiction|intros _].
    rewrite !andb_true_iff in Hok. destruct Hok as [[[[H2 Hn] Hall] Heq] _].
    apply N.leb_le in H2. apply N.ltb_lt in Hn. apply eqlN_true_eq in Heq.
    split; [exact H2|]. split; [exact Hn|]. split; [|exact Heq].
    intros x Hx. rewrite forallb_forall in Hall. apply memN_in. now apply Hall.
Qed.

(** The Array-specific part of the check: the returned run is the lowest one. *)
Theorem alloc_ok_array_lowest fb n ret fa : sortedb fb = true -> alloc_ok Array fb n ret fa = true ->
  ret <> 0 -> forall q, (forall x, In x (run q n) -> In x fb) -> ret <= q.
Proof.
  intros Hs Hok NE0 q Hq. unfold alloc_ok in Hok. destruct (N.eqb_spec ret 0) as [E0|_]; [contradiction|].
  rewrite !andb_true_iff in Hok. destruct Hok as [[[[_ Hn] _] _] [Hlow _]].
  apply N.ltb_lt in Hn.
  destruct (N.le_gt_cases ret q) as [?|Hlt]; [assumption|]. exfalso.
  destruct (run_in_span fb n q Hs Hn Hq) as [s [z [Hin [H1 H2]]]].
  apply negb_true_iff in Hlow. rewrite <- not_true_iff_false in Hlow. apply Hlow.
  apply existsb_exists. exists (s, z). split; [exact Hin|]. cbn [fst snd].
  apply andb_true_iff. split; [apply N.ltb_lt; lia | apply N.leb_le; lia].
Qed.

(** The check is not vacuous: it accepts what the model of array.Allocate does. *)
Lemma eqlN_refl a : eqlN a a = true.
Proof. induction a as [|x a IH]; [reflexivity|]. cbn [eqlN]. now rewrite N.eqb_refl, IH. Qed.

Theorem allocate_array_alloc_ok txid n s p s' :
  sortedb (free s) = true -> Forall (fun x => 2 <= x) (free s) -> 0 < n ->
  allocate_array txid n s = Ok (p, s') -> alloc_ok Array (free s) n p (free s') = true.
Proof.
  intros Hs HF Hn Hal. unfold alloc_ok. destruct (N.eqb_spec p 0) as [E0|NE0].
  - subst p. destruct (allocate_array_complete txid n s s' Hs HF Hn Hal) as [-> Hno].
    rewrite eqlN_refl, andb_true_r. apply negb_true_iff.
    destruct (hm_can_allocate (free s) n) eqn:Hc; [|apply andb_false_r].
    exfalso. apply Hno. now apply (hm_can_allocate_iff (free s) n Hs Hn).
  - destruct (allocate_array_sound txid n s p s' Hs HF Hn Hal NE0) as [Hp [Hrun [Hfree _]]].
    pose proof (allocate_array_lowest txid n s p s' Hs HF Hn Hal NE0) as Hlow.
    assert (Hnospan : forall sp, In sp (spans (free s)) -> fst sp < p -> n <= snd sp -> False).
    { intros [st z] Hin Hlt Hle. cbn [fst snd] in *.
      destruct (spans_sound (free s) st z Hs Hin) as [_ [_ Hsub]].
      assert (p <= st); [|lia]. apply Hlow. intros x Hx. apply run_in in Hx. apply Hsub. lia. }
    rewrite !andb_true_iff. repeat split.
    + apply N.leb_le. exact Hp.
    + apply N.ltb_lt. exact Hn.
    + apply forallb_forall. intros x Hx. apply memN_in. now apply Hrun.
    + rewrite Hfree. apply eqlN_refl.
    + apply negb_true_iff, not_true_iff_false. intros Hex. apply existsb_exists in Hex.
      destruct Hex as [sp [Hin Hc]]. apply andb_true_iff in Hc. destruct Hc as [H1 H2].
      apply N.ltb_lt in H1. apply N.leb_le in H2. exact (Hnospan sp Hin H1 H2).
    + apply negb_true_iff, not_true_iff_false. intros Hex. apply existsb_exists in Hex.
      destruct Hex as [sp [Hin Hc]]. rewrite !andb_true_iff in Hc. destruct Hc as [[H1 H2] H3].
      apply N.ltb_lt in H1, H2. apply N.leb_le in H3. apply (Hnospan sp Hin H1). lia.
Qed.
