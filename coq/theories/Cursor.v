(** Cursor: a line-for-line functional copy of cursor.go over the page/node tree exactly as [pageNode]
    presents it (pages and materialised nodes are indistinguishable to a cursor), plus the specification
    [ListCursor]: a sorted list with a position.  Definitions only. *)
From Bbolt Require Import Base Spec.
Open Scope Z_scope.

(** leaf element: key, flags, value *)
Inductive tree := Leaf (es : list (bytes * N * bytes)) | Branch (cs : list (bytes * tree)).

Definition count (t : tree) : Z :=
  match t with Leaf es => Z.of_nat (length es) | Branch cs => Z.of_nat (length cs) end.
Definition is_leaf t := match t with Leaf _ => true | _ => false end.
Definition child (t : tree) (i : Z) : option tree :=
  match t with Leaf _ => None | Branch cs => if i <? 0 then None else option_map snd (nth_error cs (Z.to_nat i)) end.
Definition leaf_elem (t : tree) (i : Z) : option (bytes * N * bytes) :=
  match t with Leaf es => if i <? 0 then None else nth_error es (Z.to_nat i) | _ => None end.

Definition ref := (tree * Z)%type.
Definition stack := list ref.                 (* head = top of the stack *)

(** what a cursor call returns: key, value, flags (None = nil key) *)
Definition kv := option (bytes * bytes * N).

(** goToFirstElementOnTheStack *)
Fixpoint go_first (fuel : nat) (st : stack) : res stack :=
  match fuel with O => OutOfFuel | S f =>
  match st with
  | [] => Panic
  | (t, i) :: _ => if is_leaf t then Ok st else
      match child t i with None => Panic | Some c => go_first f ((c, 0) :: st) end
  end end.

(** last() *)
Fixpoint go_last (fuel : nat) (st : stack) : res stack :=
  match fuel with O => OutOfFuel | S f =>
  match st with
  | [] => Panic
  | (t, i) :: _ => if is_leaf t then Ok st else
      match child t i with None => Panic | Some c => go_last f ((c, count c - 1) :: st) end
  end end.

(** keyValue *)
Definition key_value (st : stack) : res kv :=
  match st with
  | [] => Panic
  | (t, i) :: _ => if (count t =? 0) || (i >=? count t) then Ok None else
       match leaf_elem t i with Some (k, fl, v) => Ok (Some (k, v, fl)) | None => Panic end
  end.

(** inner loop of next(): first element from the top with index < count-1 is incremented, everything above dropped *)
Fixpoint next_up (st : stack) : option stack :=
  match st with
  | [] => None
  | (t, i) :: rest => if i <? count t - 1 then Some ((t, i + 1) :: rest) else next_up rest
  end.

(** next() *)
Fixpoint next_ (fuel : nat) (st : stack) : res (stack * kv) :=
  match fuel with O => OutOfFuel | S f =>
  match next_up st with
  | None => Ok (st, None)
  | Some st1 =>
    let? st2 := go_first fuel st1 in
    match st2 with
    | (t, _) :: _ => if count t =? 0 then next_ f st2 else let? r := key_value st2 in Ok (st2, r)
    | [] => Panic
    end
  end end.

(** first() *)
Definition first_ (fuel : nat) (root : tree) : res (stack * kv) :=
  let? st := go_first fuel [(root, 0)] in
  match st with
  | (t, _) :: _ =>
     if count t =? 0 then
       let? r := next_ fuel st in let? x := key_value (fst r) in Ok (fst r, x)
     else let? x := key_value st in Ok (st, x)
  | [] => Panic
  end.

(** loop of prev() *)
Inductive pup := PBreak (st : stack) | PFirst | PEmpty.
Fixpoint prev_up (st : stack) : pup :=
  match st with
  | [] => PEmpty
  | (t, i) :: rest => if i >? 0 then PBreak ((t, i - 1) :: rest) else
       match rest with [] => PFirst | _ => prev_up rest end
  end.

(** prev() as repaired (D1): after moving back, leaves emptied in this transaction are skipped.
    [fixed = false] gives the pinned code, which returned whatever keyValue says on the empty leaf (nil). *)
Fixpoint prev_ (fixed : bool) (fuel : nat) (root : tree) (st : stack) : res (stack * kv) :=
  match fuel with O => OutOfFuel | S f =>
  match prev_up st with
  | PEmpty => Ok ([], None)
  | PFirst => let? r := first_ fuel root in Ok (fst r, None)
  | PBreak st1 =>
      let? st2 := go_last fuel st1 in
      match st2 with
      | (t, _) :: _ :: _ => if fixed && (count t =? 0) then prev_ fixed f root st2
                            else let? x := key_value st2 in Ok (st2, x)
      | _ => let? x := key_value st2 in Ok (st2, x)
      end
  end end.

(** Last() of the pinned code: `for len(stack) > 1 && top.count() == 0 { prev() }` *)
Fixpoint last_loop (fuel big : nat) (root : tree) (st : stack) : res stack :=
  match fuel with O => OutOfFuel | S f =>
  match st with
  | (t, _) :: _ :: _ => if count t =? 0 then
        let? r := prev_ false big root st in last_loop f big root (fst r)
      else Ok st
  | _ => Ok st
  end end.

Definition last_ (fixed : bool) (fuel : nat) (root : tree) : res (stack * kv) :=
  let? st := go_last fuel [(root, count root - 1)] in
  if fixed then
    match st with
    | (t, _) :: _ :: _ => if count t =? 0 then prev_ true fuel root st else let? x := key_value st in Ok (st, x)
    | _ => let? x := key_value st in Ok (st, x)
    end
  else
    let? st' := last_loop fuel fuel root st in
    match st' with [] => Ok ([], None) | _ => let? x := key_value st' in Ok (st', x) end.

(** sort.Search(n, f): smallest index with key_i >= key (trees are sorted; on a sorted list the binary search of
    the Go code returns exactly this index, and it has probed that element, which is what sets `exact`). *)
Fixpoint first_ge (key : bytes) (ks : list bytes) : nat :=
  match ks with [] => O | k :: r => if blt k key then S (first_ge key r) else O end.

Definition tree_keys (t : tree) : list bytes :=
  match t with Leaf es => map (fun e => fst (fst e)) es | Branch cs => map fst cs end.

(** search / searchNode / searchPage / nsearch *)
Fixpoint search (fuel : nat) (key : bytes) (t : tree) (st : stack) : res stack :=
  match fuel with O => OutOfFuel | S f =>
  let ks := tree_keys t in
  let idx := first_ge key ks in
  if is_leaf t then Ok ((t, Z.of_nat idx) :: st)
  else
    let exact := match nth_error ks idx with Some k => beq k key | None => false end in
    let idx' := if negb exact && (0 <? idx)%nat then (idx - 1)%nat else idx in
    match child t (Z.of_nat idx') with
    | None => Panic
    | Some c => search f key c ((t, Z.of_nat idx') :: st)
    end
  end.

(** seek() + the API wrapper Seek (moves to the next leaf when landing past a leaf's end) *)
Definition seek_ (fuel : nat) (root : tree) (key : bytes) : res (stack * kv) :=
  let? st := search fuel key root [] in
  let? x := key_value st in
  match st with
  | (t, i) :: _ => if i >=? count t then next_ fuel st else Ok (st, x)
  | [] => Panic
  end.

(** API layer: bucket entries are shown with a nil value *)
Definition api_kv (r : kv) : option bytes * option bytes :=
  match r with
  | None => (None, None)
  | Some (k, v, fl) => if N.odd fl then (Some k, None) else (Some k, Some v)
  end.

Inductive call := CFirst | CLast | CNext | CPrev | CSeek (k : bytes).

Definition api_call (fixed : bool) (fuel : nat) (root : tree) (st : stack) (c : call) : res (stack * (option bytes * option bytes)) :=
  let? r := match c with
            | CFirst => first_ fuel root
            | CLast => last_ fixed fuel root
            | CNext => next_ fuel st
            | CPrev => prev_ fixed fuel root st
            | CSeek k => seek_ fuel root k
            end in
  Ok (fst r, api_kv (snd r)).

Fixpoint api_run (fixed : bool) (fuel : nat) (root : tree) (st : stack) (cs : list call) : res (list (option bytes * option bytes)) :=
  match cs with
  | [] => Ok []
  | c :: r => let? x := api_call fixed fuel root st c in
              let? rest := api_run fixed fuel root (fst x) r in Ok (snd x :: rest)
  end.

(** ---- specification: a sorted list with a position ---- *)
Fixpoint flatten (t : tree) : list (bytes * N * bytes) :=
  match t with
  | Leaf es => es
  | Branch cs => flat_map (fun c => flatten (snd c)) cs
  end.

Inductive lpos := Unset | At (i : nat).       (* At i with i <= length; i = length is "past the end" (only Seek gets there) *)

Definition show (e : option (bytes * N * bytes)) : option bytes * option bytes :=
  match e with None => (None, None) | Some (k, fl, v) => if N.odd fl then (Some k, None) else (Some k, Some v) end.

Definition list_call (l : list (bytes * N * bytes)) (p : lpos) (c : call) : lpos * (option bytes * option bytes) :=
  let n := length l in
  match c with
  | CFirst => (At 0, show (nth_error l 0))
  | CLast => match n with O => (At 0, (None, None)) | S m => (At m, show (nth_error l m)) end
  | CNext => match p with
             | Unset => (Unset, (None, None))
             | At i => if (S i <? n)%nat then (At (S i), show (nth_error l (S i))) else (At i, (None, None))
             end
  | CPrev => match p with
             | Unset => (Unset, (None, None))
             | At i => match i with O => (At 0, (None, None)) | S j => (At j, show (nth_error l j)) end
             end
  | CSeek k => let j := first_ge k (map (fun e => fst (fst e)) l) in (At j, show (nth_error l j))
  end.

Fixpoint list_run (l : list (bytes * N * bytes)) (p : lpos) (cs : list call) : list (option bytes * option bytes) :=
  match cs with
  | [] => []
  | c :: r => let '(p', out) := list_call l p c in out :: list_run l p' r
  end.

(** well-formedness of a tree the cursor may walk (leaves may be empty: deletes in the same transaction) *)
Fixpoint nodes (t : tree) : nat :=
  match t with Leaf _ => 1%nat | Branch cs => S (fold_right (fun c a => (nodes (snd c) + a)%nat) O cs) end.
Fixpoint depth (t : tree) : nat :=
  match t with Leaf _ => 1%nat | Branch cs => S (fold_right (fun c a => Nat.max (depth (snd c)) a) O cs) end.
Fixpoint branches_nonempty (t : tree) : bool :=
  match t with Leaf _ => true | Branch cs => negb (length cs =? 0)%nat && forallb (fun c => branches_nonempty (snd c)) cs end.
Fixpoint has_empty_nonroot_leaf_aux (root : bool) (t : tree) : bool :=
  match t with
  | Leaf es => negb root && (length es =? 0)%nat
  | Branch cs => existsb (fun c => has_empty_nonroot_leaf_aux false (snd c)) cs
  end.
Definition has_empty_leaf (t : tree) : bool := has_empty_nonroot_leaf_aux true t.

(** key-order well-formedness as the cursor needs it: keys strictly increasing inside every leaf and branch; child i>=1
    holds keys >= its separator; every child holds keys < the next separator (child 0 may hold keys below its own,
    stale, separator: an insert of a new smallest key lands there before the next spill). *)
Definition in_lo (lo : option bytes) (k : bytes) : bool := match lo with None => true | Some l => negb (blt k l) end.
Definition in_hi (k : bytes) (hi : option bytes) : bool := match hi with None => true | Some h => blt k h end.
Fixpoint str_inc (ks : list bytes) : bool :=
  match ks with [] => true | k :: r => match r with [] => true | k' :: _ => blt k k' && str_inc r end end.

Fixpoint wfb (t : tree) (lo hi : option bytes) : bool :=
  match t with
  | Leaf es => let ks := map (fun e => fst (fst e)) es in
               str_inc ks && forallb (fun k => in_lo lo k && in_hi k hi) ks
  | Branch cs =>
      let ks := map fst cs in
      negb (length cs =? 0)%nat && str_inc ks && forallb (fun k => in_hi k hi) ks
      && (fix go (first : bool) (cs : list (bytes * tree)) : bool :=
            match cs with
            | [] => true
            | (k, c) :: r =>
                wfb c (if first then lo else Some k) (match r with [] => hi | (k', _) :: _ => Some k' end)
                && go false r
            end) true cs
  end.
Definition wf (t : tree) : bool := wfb t None None.

(** fuel that suffices for every call on [t] (linear in the number of nodes) *)
Definition fuel_for (t : tree) : nat := (4 * nodes t + 16)%nat.
