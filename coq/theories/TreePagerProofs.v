(** TreePagerProofs: composition of the tree layer (Tree.v) with the page-level transaction system (Pager.v):
    every Free the commit of a bucket's tree issues passes the Pager's guard on LFree (a page of the base version,
    freed at most once), for every visit order; and the pages the new tree keeps survive the Pager's LCommit. *)
From Bbolt Require Import Base BaseProofs Consts Spec Node Tree NodeProofs Pager PagerProofs TreeProofs TreeNestedProofs.
From Coq Require Import Permutation.

(** Free(page) frees the whole run p .. p+ov: one LFree per page id *)
Definition free_labels (evs : list ev) : list label :=
  flat_map (fun e => match e with EvFree p ov => map LFree (run p (ov + 1)) | EvAlloc _ => [] end) evs.
Definition run_of (po : N * N) : list N := run (fst po) (snd po + 1).
(** all page ids a tree occupies, overflow included *)
Definition run_ids (t : nt) : list N := flat_map run_of (runs t).
(** the page ids the events free *)
Definition freed_ids (evs : list ev) : list N := flat_map run_of (freed evs).

Lemma free_labels_ids evs : free_labels evs = map LFree (freed_ids evs).
Proof.
  unfold free_labels, freed_ids. induction evs as [|[p ov|n] evs IH]; cbn [flat_map freed]; [reflexivity| |exact IH].
  rewrite map_app, IH. reflexivity.
Qed.

(** * T1: a list of distinct pages of the base version, none freed yet, is accepted *)
Theorem prun_frees : forall ps s w,
  g_w s = Some w -> NoDup ps -> (forall p, In p ps -> In p (g_pages s)) -> (forall p, In p ps -> ~ In p (w_freed w)) ->
  exists s' w', prun s (map LFree ps) = Some s' /\
    g_pages s' = g_pages s /\ g_free s' = g_free s /\ g_readers s' = g_readers s /\
    g_cur s' = g_cur s /\ g_mark s' = g_mark s /\ g_hist s' = g_hist s /\
    g_w s' = Some w' /\ w_freed w' = rev ps ++ w_freed w /\ w_alloc w' = w_alloc w /\ w_id w' = w_id w /\ w_mark w' = w_mark w.
Proof.
  induction ps as [|p ps IH]; intros s w Hw ND Hin Hnf.
  - exists s, w. cbn. auto 12.
  - inversion ND as [|? ? Hp ND']; subst. cbn [map prun pstep]. rewrite Hw.
    assert (G : memN p (g_pages s) && negb (memN p (w_freed w)) = true).
    { apply andb_true_iff. split; [apply memN_in; apply Hin; now left|]. apply negb_true_iff, memN_false. apply Hnf. now left. }
    rewrite G.
    match goal with |- context [prun ?s1 _] => set (s1' := s1) end.
    destruct (IH s1' {| w_id := w_id w; w_mark := w_mark w; w_freed := p :: w_freed w; w_alloc := w_alloc w |}) as (s' & w' & R & E).
    + reflexivity.
    + exact ND'.
    + intros q Hq. cbn. apply Hin. now right.
    + intros q Hq. cbn [w_freed]. intros [->|Hf]; [contradiction|]. apply (Hnf q); [now right | exact Hf].
    + exists s', w'. split; [exact R|]. cbn in E. destruct E as (E1 & E2 & E3 & E4 & E5 & E6 & E7 & E8 & E9 & E10 & E11).
      repeat split; auto. rewrite E8. cbn [rev]. now rewrite <- app_assoc.
Qed.
Print Assumptions prun_frees.

(** * the bridge: the accounting theorem of the tree layer, read on page ids *)
Lemma run_ids_perm t evs t' : Permutation (runs t) (freed evs ++ runs t') ->
  Permutation (run_ids t) (freed_ids evs ++ run_ids t').
Proof. intros HP. unfold run_ids, freed_ids. rewrite <- flat_map_app. now apply Permutation_flat_map. Qed.

(** * T2 + T3 for any commit function that satisfies the accounting statement *)
Theorem accounted_frees_accepted t evs t' s w :
  Permutation (runs t) (freed evs ++ runs t') ->
  NoDup (run_ids t) -> (forall p, In p (run_ids t) -> In p (g_pages s)) ->
  g_w s = Some w -> (forall p, In p (run_ids t) -> ~ In p (w_freed w)) ->
  exists s' w', prun s (free_labels evs) = Some s' /\
    g_pages s' = g_pages s /\ g_free s' = g_free s /\ g_readers s' = g_readers s /\
    g_cur s' = g_cur s /\ g_mark s' = g_mark s /\ g_hist s' = g_hist s /\
    g_w s' = Some w' /\ w_freed w' = rev (freed_ids evs) ++ w_freed w /\ w_alloc w' = w_alloc w /\
    w_id w' = w_id w /\ w_mark w' = w_mark w /\
    (* no double free, no foreign page *)
    NoDup (freed_ids evs) /\ (forall p, In p (freed_ids evs) -> In p (run_ids t)) /\
    (* T3: the pages the new tree keeps are pages of the base version that nobody freed: they survive LCommit *)
    (forall p, In p (run_ids t') -> In p (run_ids t) /\ ~ In p (freed_ids evs)) /\
    (forall p, In p (run_ids t') -> In p (minus (g_pages s) (freed_ids evs))) /\
    (forall p, In p (run_ids t') -> In p (minus (g_pages s') (w_freed w'))).
Proof.
  intros HP ND Hin Hw Hnf. pose proof (run_ids_perm _ _ _ HP) as HR.
  pose proof (Permutation_NoDup HR ND) as ND2. destruct (nodup_app_inv _ _ ND2) as [NDf NDk].
  assert (Sub : forall p, In p (freed_ids evs) -> In p (run_ids t)).
  { intros p Hp. eapply Permutation_in; [symmetry; exact HR | apply in_or_app; auto]. }
  assert (Keep : forall p, In p (run_ids t') -> In p (run_ids t) /\ ~ In p (freed_ids evs)).
  { intros p Hp. split; [eapply Permutation_in; [symmetry; exact HR | apply in_or_app; auto]|].
    intros Hf. exact (nodup_disj _ _ p ND2 Hf Hp). }
  destruct (prun_frees (freed_ids evs) s w Hw NDf) as (s' & w' & R & E1 & E2 & E3 & E4 & E5 & E6 & E7 & E8 & E9 & E10 & E11).
  { intros p Hp. apply Hin, Sub, Hp. } { intros p Hp. apply Hnf, Sub, Hp. }
  exists s', w'. rewrite free_labels_ids. repeat split; auto; try (apply Keep; assumption).
  - intros p Hp. apply in_minus. destruct (Keep p Hp). split; auto.
  - intros p Hp. apply in_minus. destruct (Keep p Hp) as [K1 K2]. rewrite E1, E8. split; auto.
    intros Hf. apply in_app_or in Hf. destruct Hf as [Hf|Hf]; [apply K2; now apply in_rev | exact (Hnf p K1 Hf)].
Qed.
Print Assumptions accounted_frees_accepted.

(** the conclusion, as a predicate, to state the corollaries *)
Definition frees_accepted (t t' : nt) (evs : list ev) (s : pg) (w : wtx) : Prop :=
  exists s' w', prun s (free_labels evs) = Some s' /\
    g_pages s' = g_pages s /\ g_free s' = g_free s /\ g_readers s' = g_readers s /\
    g_cur s' = g_cur s /\ g_mark s' = g_mark s /\ g_hist s' = g_hist s /\
    g_w s' = Some w' /\ w_freed w' = rev (freed_ids evs) ++ w_freed w /\ w_alloc w' = w_alloc w /\
    w_id w' = w_id w /\ w_mark w' = w_mark w /\
    NoDup (freed_ids evs) /\ (forall p, In p (freed_ids evs) -> In p (run_ids t)) /\
    (forall p, In p (run_ids t') -> In p (run_ids t) /\ ~ In p (freed_ids evs)) /\
    (forall p, In p (run_ids t') -> In p (minus (g_pages s) (freed_ids evs))) /\
    (forall p, In p (run_ids t') -> In p (minus (g_pages s') (w_freed w'))).

(** T2/T3 for commit_bucket, every visit order *)
Theorem commit_bucket_frees_accepted ps fill fuel t order t' evs inl s w :
  (0 < fuel)%nat -> aligned t -> NoDup (run_ids t) -> (forall p, In p (run_ids t) -> In p (g_pages s)) ->
  g_w s = Some w -> (forall p, In p (run_ids t) -> ~ In p (w_freed w)) ->
  commit_bucket ps fill fuel t order = Ok (t', evs, inl) -> frees_accepted t t' evs s w.
Proof.
  intros Hf A ND Hin Hw Hnf H. apply accounted_frees_accepted; auto. eapply commit_bucket_runs; eauto.
Qed.
Print Assumptions commit_bucket_frees_accepted.

Theorem commit_tree_frees_accepted ps fill fuel t order t' evs s w :
  aligned t -> NoDup (run_ids t) -> (forall p, In p (run_ids t) -> In p (g_pages s)) ->
  g_w s = Some w -> (forall p, In p (run_ids t) -> ~ In p (w_freed w)) ->
  commit_tree ps fill fuel t order = Ok (t', evs) -> frees_accepted t t' evs s w.
Proof.
  intros A ND Hin Hw Hnf H. apply accounted_frees_accepted; auto. eapply commit_tree_runs; eauto.
Qed.
Print Assumptions commit_tree_frees_accepted.

Theorem commit_parent_bucket_frees_accepted ps fill fuel t order children t' evs inl s w :
  (0 < fuel)%nat -> aligned t -> NoDup (run_ids t) -> (forall p, In p (run_ids t) -> In p (g_pages s)) ->
  g_w s = Some w -> (forall p, In p (run_ids t) -> ~ In p (w_freed w)) ->
  commit_parent_bucket ps fill fuel t order children = Ok (t', evs, inl) -> frees_accepted t t' evs s w.
Proof.
  intros Hf A ND Hin Hw Hnf H. apply accounted_frees_accepted; auto. eapply commit_parent_bucket_runs; eauto.
Qed.
Print Assumptions commit_parent_bucket_frees_accepted.

(** a fresh writer has freed nothing: the last hypothesis is then void *)
Corollary commit_bucket_frees_accepted_fresh ps fill fuel t order t' evs inl s w :
  (0 < fuel)%nat -> aligned t -> NoDup (run_ids t) -> (forall p, In p (run_ids t) -> In p (g_pages s)) ->
  g_w s = Some w -> w_freed w = [] ->
  commit_bucket ps fill fuel t order = Ok (t', evs, inl) -> frees_accepted t t' evs s w.
Proof. intros Hf A ND Hin Hw E H. eapply commit_bucket_frees_accepted; eauto. intros p _. rewrite E. auto. Qed.

(** * Example: ex1 (pages 2,3,4,5) under a freshly begun writer *)
Example ex1_run_ids : run_ids ex1 = [2; 3; 4; 5].
Proof. vm_compute. reflexivity. Qed.
Example ex1_frees_accepted :
  match commit_tree 4096 50 10 ex1 [4] with
  | Ok (t', evs) =>
      free_labels evs = [LFree 4; LFree 2] /\
      match prun (pg_open 1 6 [2; 3; 4; 5] []) (LBeginW [] :: free_labels evs ++ [LCommit]) with
      | Some s' => g_pages s' = [3; 5] /\ run_ids t' = [3; 5] /\ g_w s' = None
      | None => False
      end
  | _ => False
  end.
Proof. vm_compute. repeat split; reflexivity. Qed.
