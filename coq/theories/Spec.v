(** Spec: the reference model of C04 - a tree of byte-string-keyed ordered maps, each with a counter.
    Definitions only.  Operations mirror the public Bucket/Tx API with its documented errors in the
    order bucket.go tests them. *)
From Bbolt Require Import Base Consts.

Definition bytes := list N.

(** lexicographic byte order = bytes.Compare *)
Fixpoint bcmp (a b : bytes) : comparison :=
  match a, b with
  | [], [] => Eq
  | [], _ :: _ => Lt
  | _ :: _, [] => Gt
  | x :: a', y :: b' => match x ?= y with Eq => bcmp a' b' | c => c end
  end.
Definition beq (a b : bytes) : bool := match bcmp a b with Eq => true | _ => false end.
Definition blt (a b : bytes) : bool := match bcmp a b with Lt => true | _ => false end.

Inductive entry := Val (v : bytes) | Sub (seq : N) (ents : list (bytes * entry)).
(** a bucket = its sequence counter and its entries, strictly sorted by key *)
Definition bucket := (N * list (bytes * entry))%type.

Inductive err :=
| ENone | ETxClosed | ETxNotWritable | EBucketNameRequired | EBucketExists | EBucketNotFound
| EIncompatibleValue | EKeyRequired | EKeyTooLarge | EValueTooLarge | ESameBuckets | ENoBucket (* path did not resolve: harness-level *).

(** sorted association list operations *)
Fixpoint lookup (k : bytes) (l : list (bytes * entry)) : option entry :=
  match l with
  | [] => None
  | (k', e) :: r => match bcmp k k' with Eq => Some e | Lt => None | Gt => lookup k r end
  end.
Fixpoint insert (k : bytes) (e : entry) (l : list (bytes * entry)) : list (bytes * entry) :=
  match l with
  | [] => [(k, e)]
  | (k', e') :: r => match bcmp k k' with Eq => (k, e) :: r | Lt => (k, e) :: l | Gt => (k', e') :: insert k e r end
  end.
Fixpoint remove (k : bytes) (l : list (bytes * entry)) : list (bytes * entry) :=
  match l with
  | [] => []
  | (k', e') :: r => match bcmp k k' with Eq => r | Lt => l | Gt => (k', e') :: remove k r end
  end.

(** resolve a path of bucket names; [None] if some component is missing or is a plain value *)
Fixpoint resolve (path : list bytes) (b : bucket) : option bucket :=
  match path with
  | [] => Some b
  | n :: rest => match lookup n (snd b) with
                 | Some (Sub s es) => resolve rest (s, es)
                 | _ => None
                 end
  end.

(** replace the bucket at [path] by [nb] (path must resolve) *)
Fixpoint update (path : list bytes) (nb : bucket) (b : bucket) : bucket :=
  match path with
  | [] => nb
  | n :: rest => match lookup n (snd b) with
                 | Some (Sub s es) => let '(s', es') := update rest nb (s, es) in
                                      (fst b, insert n (Sub s' es') (snd b))
                 | _ => b
                 end
  end.

Definition is_prefix (p q : list bytes) : bool :=
  (length p <=? length q)%nat && forallb (fun ab => beq (fst ab) (snd ab)) (combine p q).

Definition len (b : bytes) : N := N.of_nat (length b).

(** operations inside a WRITE transaction on the working copy; each returns (error, new root) *)
Definition create_bucket (path : list bytes) (name : bytes) (root : bucket) : err * bucket :=
  match resolve path root with None => (ENoBucket, root) | Some b =>
  if len name =? 0 then (EBucketNameRequired, root) else
  match lookup name (snd b) with
  | Some (Sub _ _) => (EBucketExists, root)
  | Some (Val _) => (EIncompatibleValue, root)
  | None => (ENone, update path (fst b, insert name (Sub 0 []) (snd b)) root)
  end end.

Definition create_bucket_if_not_exists (path : list bytes) (name : bytes) (root : bucket) : err * bucket :=
  match resolve path root with None => (ENoBucket, root) | Some b =>
  if len name =? 0 then (EBucketNameRequired, root) else
  match lookup name (snd b) with
  | Some (Sub _ _) => (ENone, root)
  | Some (Val _) => (EIncompatibleValue, root)
  | None => (ENone, update path (fst b, insert name (Sub 0 []) (snd b)) root)
  end end.

Definition delete_bucket (path : list bytes) (name : bytes) (root : bucket) : err * bucket :=
  match resolve path root with None => (ENoBucket, root) | Some b =>
  match lookup name (snd b) with
  | None => (EBucketNotFound, root)
  | Some (Val _) => (EIncompatibleValue, root)
  | Some (Sub _ _) => (ENone, update path (fst b, remove name (snd b)) root)
  end end.

(** MoveBucket(name) from the bucket at [src] into the bucket at [dst].  Moving a bucket into itself or
    into one of its own descendants has no meaning in a tree of maps: the spec refuses it (ESameBuckets)
    and leaves the state unchanged (the code does not: defect D4). *)
Definition move_bucket (src : list bytes) (name : bytes) (dst : list bytes) (root : bucket) : err * bucket :=
  match resolve src root, resolve dst root with
  | Some sb, Some db =>
    match lookup name (snd sb) with
    | None => (EBucketNotFound, root)
    | Some (Val _) => (EIncompatibleValue, root)
    | Some (Sub s es) =>
      if is_prefix src dst && is_prefix dst src then (ESameBuckets, root) else
      if is_prefix (src ++ [name]) dst then (ESameBuckets, root) else
      match lookup name (snd db) with
      | Some (Sub _ _) => (EBucketExists, root)
      | Some (Val _) => (EIncompatibleValue, root)
      | None =>
        let root1 := update src (fst sb, remove name (snd sb)) root in
        match resolve dst root1 with
        | Some db1 => (ENone, update dst (fst db1, insert name (Sub s es) (snd db1)) root1)
        | None => (ENoBucket, root)
        end
      end
    end
  | _, _ => (ENoBucket, root)
  end.

Definition put (path : list bytes) (k v : bytes) (vlen : N) (root : bucket) : err * bucket :=
  match resolve path root with None => (ENoBucket, root) | Some b =>
  if len k =? 0 then (EKeyRequired, root) else
  if max_key_size <? len k then (EKeyTooLarge, root) else
  if max_value_size <? vlen then (EValueTooLarge, root) else
  match lookup k (snd b) with
  | Some (Sub _ _) => (EIncompatibleValue, root)
  | _ => (ENone, update path (fst b, insert k (Val v) (snd b)) root)
  end end.

Definition get (path : list bytes) (k : bytes) (root : bucket) : err * option bytes :=
  match resolve path root with None => (ENoBucket, None) | Some b =>
  match lookup k (snd b) with Some (Val v) => (ENone, Some v) | _ => (ENone, None) end end.

Definition delete (path : list bytes) (k : bytes) (root : bucket) : err * bucket :=
  match resolve path root with None => (ENoBucket, root) | Some b =>
  match lookup k (snd b) with
  | None => (ENone, root)
  | Some (Sub _ _) => (EIncompatibleValue, root)
  | Some (Val _) => (ENone, update path (fst b, remove k (snd b)) root)
  end end.

Definition sequence (path : list bytes) (root : bucket) : err * N :=
  match resolve path root with None => (ENoBucket, 0) | Some b => (ENone, fst b) end.

Definition set_sequence (path : list bytes) (v : N) (root : bucket) : err * bucket :=
  match resolve path root with None => (ENoBucket, root) | Some b =>
  (ENone, update path (v mod M64, snd b) root) end.

Definition next_sequence (path : list bytes) (root : bucket) : err * N * bucket :=
  match resolve path root with None => (ENoBucket, 0, root) | Some b =>
  let s := (fst b + 1) mod M64 in (ENone, s, update path (s, snd b) root) end.

(** what a ForEach / cursor walk shows: keys in order, nested buckets with no value *)
Definition listing (b : bucket) : list (bytes * option bytes) :=
  map (fun ke => (fst ke, match snd ke with Val v => Some v | Sub _ _ => None end)) (snd b).

(** number of plain keys (Inspect().KeyN) *)
Definition key_n (b : bucket) : N :=
  N.of_nat (length (filter (fun ke => match snd ke with Val _ => true | _ => false end) (snd b))).

(** ---- operation language shared with the harness ---- *)
Inductive op :=
| OCreate (path : list bytes) (name : bytes)
| OCreateIf (path : list bytes) (name : bytes)
| ODeleteBucket (path : list bytes) (name : bytes)
| OMove (src : list bytes) (name : bytes) (dst : list bytes)
| OPut (path : list bytes) (k v : bytes)
| OGet (path : list bytes) (k : bytes)
| ODelete (path : list bytes) (k : bytes)
| OSeq (path : list bytes)
| OSetSeq (path : list bytes) (v : N)
| ONextSeq (path : list bytes).

Inductive outv := VNone | VBytes (v : option bytes) | VNum (n : N).

Definition is_write (o : op) : bool :=
  match o with OGet _ _ | OSeq _ => false | _ => true end.

(** one API call inside a transaction; [writable] = kind of the transaction.
    A write op in a read-only transaction returns ETxNotWritable and changes nothing. *)
Definition exec (writable : bool) (o : op) (root : bucket) : err * outv * bucket :=
  if is_write o && negb writable then
    (match o with
     | OCreate p _ | OCreateIf p _ | ODeleteBucket p _ | OPut p _ _ | ODelete p _ | OSetSeq p _ | ONextSeq p =>
         match resolve p root with None => ENoBucket | Some _ => ETxNotWritable end
     | OMove s _ d => match resolve s root, resolve d root with Some _, Some _ => ETxNotWritable | _, _ => ENoBucket end
     | _ => ENone end, VNone, root)
  else
  match o with
  | OCreate p n => let '(e, r) := create_bucket p n root in (e, VNone, r)
  | OCreateIf p n => let '(e, r) := create_bucket_if_not_exists p n root in (e, VNone, r)
  | ODeleteBucket p n => let '(e, r) := delete_bucket p n root in (e, VNone, r)
  | OMove s n d => let '(e, r) := move_bucket s n d root in (e, VNone, r)
  | OPut p k v => let '(e, r) := put p k v (len v) root in (e, VNone, r)
  | OGet p k => let '(e, v) := get p k root in (e, VBytes v, root)
  | ODelete p k => let '(e, r) := delete p k root in (e, VNone, r)
  | OSeq p => let '(e, n) := sequence p root in (e, VNum n, root)
  | OSetSeq p v => let '(e, r) := set_sequence p v root in (e, VNone, r)
  | ONextSeq p => let '(e, n, r) := next_sequence p root in (e, VNum n, r)
  end.

(** well-formedness: keys strictly increasing at every level *)
Fixpoint keys_sorted (l : list (bytes * entry)) : bool :=
  match l with
  | [] => true
  | (k, _) :: r => match r with [] => true | (k', _) :: _ => blt k k' && keys_sorted r end
  end.
