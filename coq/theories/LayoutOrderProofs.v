(** LayoutOrderProofs: the order flag computed by the independent reader [Layout.dec_page] implies that the
    decoded entries are a sorted association list (in the sense of the reference map, [Spec.keys_sorted]),
    within the bounds passed down from the parent, at every nesting level. *)
From Bbolt Require Import Base BaseProofs Consts Spec SpecProofs Fnv Layout.
From Coq Require Import ZifyN ZifyNat ZifyBool.

(** * byte order helpers *)
Lemma blt_irrefl a : blt a a = false.
Proof. unfold blt. now rewrite bcmp_refl. Qed.

(** a < p, p <= b  ->  a < b *)
Lemma blt_lt_le_trans a p b : blt a p = true -> blt b p = false -> blt a b = true.
Proof.
  intros H1 H2. unfold blt. destruct (bcmp a b) eqn:E; [| reflexivity |].
  - apply bcmp_eq in E. subst. congruence.
  - apply bcmp_gt_lt in E. assert (blt b a = true) as H3 by (unfold blt; now rewrite E).
    rewrite (blt_trans _ _ _ H3 H1) in H2. discriminate.
Qed.

(** p <= a, a < b  ->  p < b, hence in particular  not (b < p) *)
Lemma blt_le_lt_trans p a b : blt a p = false -> blt a b = true -> blt p b = true.
Proof.
  intros H1 H2. unfold blt. destruct (bcmp p b) eqn:E; [| reflexivity |].
  - apply bcmp_eq in E. subst. congruence.
  - apply bcmp_gt_lt in E. assert (blt b p = true) as H3 by (unfold blt; now rewrite E).
    rewrite (blt_trans _ _ _ H2 H3) in H1. discriminate.
Qed.

Lemma blt_asym a b : blt a b = true -> blt b a = false.
Proof.
  intros H. destruct (blt b a) eqn:E; [|reflexivity].
  pose proof (blt_trans _ _ _ H E) as K. rewrite blt_irrefl in K. discriminate.
Qed.

(** p <= a, a <= b -> p <= b *)
Lemma ble_trans p a b : blt a p = false -> blt b a = false -> blt b p = false.
Proof.
  intros H1 H2. destruct (blt b p) eqn:E; [|reflexivity].
  (* b < p, a >= p -> b < a *)
  rewrite (blt_lt_le_trans _ _ _ E H1) in H2. discriminate.
Qed.

Lemma opt_le_trans lo a b : opt_le lo a = true -> blt b a = false -> opt_le lo b = true.
Proof.
  destruct lo as [l|]; [|reflexivity]. cbn [opt_le]. rewrite !negb_true_iff. apply ble_trans.
Qed.

Lemma opt_lt_trans a b hi : blt a b = true -> opt_lt b hi = true -> opt_lt a hi = true.
Proof. destruct hi as [h|]; [|reflexivity]. cbn [opt_lt]. apply blt_trans. Qed.

Lemma head_bound (keys : list bytes) lo k :
  match keys with [] => true | k0 :: _ => opt_le lo k0 end = true ->
  match keys with [] => False | k0 :: _ => blt k k0 = false end -> opt_le lo k = true.
Proof. destruct keys as [|k0 r]; [intros _ []|]. apply opt_le_trans. Qed.

(** * sorted lists *)
Lemma keys_sorted_strictly_inc (l : list (bytes * entry)) : keys_sorted l = strictly_inc (map fst l).
Proof.
  induction l as [|[k e] l IH]; [reflexivity|].
  destruct l as [|[k' e'] l]; [reflexivity|].
  change (keys_sorted ((k, e) :: (k', e') :: l)) with (blt k k' && keys_sorted ((k', e') :: l)).
  rewrite IH. reflexivity.
Qed.

Lemma strictly_inc_cons k r : strictly_inc (k :: r) = true ->
  strictly_inc r = true /\ forall k', In k' r -> blt k k' = true.
Proof.
  revert k. induction r as [|k2 r IH]; intros k H.
  - split; [reflexivity|]. intros k' [].
  - change (strictly_inc (k :: k2 :: r)) with (blt k k2 && strictly_inc (k2 :: r)) in H.
    apply andb_true_iff in H. destruct H as [H1 H2]. split; [exact H2|].
    intros k' [E|I]; [now subst|]. destruct (IH _ H2) as [_ K]. eapply blt_trans; eauto.
Qed.

(** concatenation of two sorted lists separated by a pivot *)
Lemma keys_sorted_app (l1 l2 : list (bytes * entry)) p :
  keys_sorted l1 = true -> keys_sorted l2 = true ->
  (forall k e, In (k, e) l1 -> blt k p = true) ->
  (forall k e, In (k, e) l2 -> blt k p = false) ->
  keys_sorted (l1 ++ l2) = true.
Proof.
  intros S1 S2 B1 B2. induction l1 as [|[k e] l1 IH]; [exact S2|].
  apply keys_sorted_cons in S1. destruct S1 as [L1 S1].
  cbn [app]. apply keys_sorted_cons. split.
  - destruct l1 as [|[k' e'] l1]; cbn [app].
    + destruct l2 as [|[k2 e2] l2]; [exact I|]. cbn [lower_bound].
      assert (blt k k2 = true) as K.
      { eapply blt_lt_le_trans; [eapply B1; left; reflexivity | eapply B2; left; reflexivity]. }
      unfold blt in K. destruct (bcmp k k2); congruence.
    + exact L1.
  - apply IH; [exact S1|]. intros k0 e0 I. eapply B1. right. exact I.
Qed.

(** * mapM *)
Lemma mapM_Forall2 {A B} (f : A -> option B) (l : list A) : forall rs,
  mapM f l = Some rs -> Forall2 (fun a b => f a = Some b) l rs.
Proof.
  induction l as [|a l IH]; intros rs H; cbn [mapM] in H.
  - injection H as <-. constructor.
  - destruct (f a) as [b|] eqn:E; [|discriminate]. destruct (mapM f l) as [bs|]; [|discriminate].
    injection H as <-. constructor; [exact E | now apply IH].
Qed.

Lemma Forall2_In_r {A B} (P : A -> B -> Prop) l rs : Forall2 P l rs -> forall b, In b rs -> exists a, In a l /\ P a b.
Proof.
  induction 1 as [|a b l rs H _ IH]; intros b0 I; [destruct I|].
  destruct I as [<-|I]; [exists a; split; [now left | exact H]|].
  destruct (IH _ I) as (a0 & I0 & P0). exists a0. split; [now right | exact P0].
Qed.

Lemma Forall2_impl_In_r {A B} (P Q : A -> B -> Prop) l rs :
  Forall2 P l rs -> (forall a b, In b rs -> P a b -> Q a b) -> Forall2 Q l rs.
Proof.
  induction 1 as [|a b l rs H _ IH]; intros K; constructor.
  - apply K; [now left | exact H].
  - apply IH. intros a0 b0 I. apply K. now right.
Qed.

Lemma Forall2_map_key {A B} (P : A -> B -> Prop) (ka : A -> bytes) (kb : B -> bytes) l rs :
  Forall2 P l rs -> (forall a b, P a b -> kb b = ka a) -> map kb rs = map ka l.
Proof.
  intros H K. induction H as [|a b l rs H _ IH]; [reflexivity|]. cbn [map]. now rewrite IH, (K _ _ H).
Qed.

(** * a leaf page: the keys of the entries are the keys the order flag was computed from *)
Lemma leaf_order_sorted (keys : list bytes) (ents : list (bytes * entry)) lo hi :
  map fst ents = keys ->
  strictly_inc keys = true ->
  match keys with [] => true | k :: _ => opt_le lo k end = true ->
  forallb (fun k => opt_lt k hi) keys = true ->
  keys_sorted ents = true /\
  (forall k e, In (k, e) ents -> opt_le lo k = true /\ opt_lt k hi = true).
Proof.
  intros EK SI LO HI. split.
  - now rewrite keys_sorted_strictly_inc, EK.
  - intros k e I. assert (In k keys) as IK by (rewrite <- EK; apply (in_map fst _ _ I)).
    split; [| rewrite forallb_forall in HI; now apply HI].
    clear I EK. destruct keys as [|k0 r]; [destruct IK|].
    destruct IK as [<-|IK]; [exact LO|].
    apply strictly_inc_cons in SI. destruct SI as [_ SI].
    eapply opt_le_trans; [exact LO|]. apply blt_asym. now apply SI.
Qed.

(** * a branch page: concatenation of the children's entries *)
Definition child_ok (k : bytes) (h : option bytes) (ents : list (bytes * entry)) : Prop :=
  keys_sorted ents = true /\ forall k' e, In (k', e) ents -> blt k' k = false /\ opt_lt k' h = true.

Lemma branch_concat_sorted {X} (kf : X -> bytes) hi : forall (xs : list X) (rs : list dres),
  strictly_inc (map kf xs) = true ->
  forallb (fun k => opt_lt k hi) (map kf xs) = true ->
  Forall2 (fun xh d => child_ok (kf (fst xh)) (snd xh) (r_ents d))
          (combine xs (map Some (tl (map kf xs)) ++ [hi])) rs ->
  keys_sorted (flat_map r_ents rs) = true /\
  forall k' e, In (k', e) (flat_map r_ents rs) ->
    match map kf xs with [] => False | k0 :: _ => blt k' k0 = false end /\ opt_lt k' hi = true.
Proof.
  induction xs as [|x xs IH]; intros rs SI HI F.
  - cbn [map tl combine] in F. inversion F; subst. cbn [flat_map]. split; [reflexivity|]. intros k' e [].
  - destruct xs as [|x2 xs].
    + cbn [map tl combine app] in F. inversion F as [|a b l l' C F']; subst. inversion F'; subst.
      cbn [flat_map fst snd] in *. rewrite app_nil_r. destruct C as [C1 C2]. split; [exact C1|].
      intros k' e I. cbn [map]. exact (C2 _ _ I).
    + cbn [map tl combine app] in F. inversion F as [|a b l rs' C F']; subst. clear F.
      cbn [fst snd] in C. destruct C as [C1 C2].
      cbn [map] in SI, HI. pose proof (strictly_inc_cons _ _ SI) as [SI' LT].
      cbn [forallb] in HI. apply andb_true_iff in HI. destruct HI as [HI0 HI'].
      specialize (IH rs' SI' HI' F'). cbn [map] in IH. destruct IH as [IH1 IH2].
      assert (blt (kf x) (kf x2) = true) as L12 by (apply LT; now left).
      pose proof HI' as HI2. cbn [forallb] in HI2. apply andb_true_iff in HI2. destruct HI2 as [HI2 _].
      cbn [flat_map]. split.
      * apply keys_sorted_app with (p := kf x2); [exact C1 | exact IH1 | |].
        -- intros k e I. apply C2 in I. destruct I as [_ I]. exact I.
        -- intros k e I. apply IH2 in I. destruct I as [I _]. exact I.
      * intros k' e I. cbn [map]. apply in_app_or in I. destruct I as [I|I].
        -- apply C2 in I. destruct I as [I1 I2]. split; [exact I1|].
           cbn [opt_lt] in I2. eapply opt_lt_trans; eauto.
        -- apply IH2 in I. destruct I as [I1 I2]. split; [|exact I2].
           (* kf x < kf x2 <= k' *)
           apply blt_asym. eapply blt_lt_le_trans; eauto.
Qed.

(** * sortedness at every nesting level *)
Definition sub_sorted (P : list (bytes * entry) -> bool) (ke : bytes * entry) : bool :=
  match snd ke with Val _ => true | Sub _ es => P es end.

Fixpoint all_sorted (fuel : nat) (ents : list (bytes * entry)) : bool :=
  match fuel with O => false | S f =>
    keys_sorted ents && forallb (sub_sorted (all_sorted f)) ents
  end.

Lemma all_sorted_S f ents :
  all_sorted (S f) ents = keys_sorted ents && forallb (sub_sorted (all_sorted f)) ents.
Proof. reflexivity. Qed.

Lemma all_sorted_mono f : forall ents, all_sorted f ents = true -> all_sorted (S f) ents = true.
Proof.
  induction f as [|f IH]; intros ents H; [discriminate|].
  rewrite all_sorted_S in H. apply andb_true_iff in H. destruct H as [H1 H2].
  rewrite all_sorted_S, H1. cbn [andb]. rewrite forallb_forall in *. intros [k e] I.
  specialize (H2 _ I). unfold sub_sorted in *. cbn [snd] in *. destruct e as [v|s es]; [reflexivity|]. now apply IH.
Qed.

Lemma all_sorted_keys f ents : all_sorted f ents = true -> keys_sorted ents = true.
Proof. destruct f; [discriminate|]. rewrite all_sorted_S. intros H. apply andb_true_iff in H. tauto. Qed.

Section Order.
  Variable rd : N -> N.
  Variable ps : N.

  Definition dec_ok (f : nat) : Prop := forall base limit inline lo hi d,
    dec_page rd ps f base limit inline lo hi = Some d -> r_order d = true ->
    keys_sorted (r_ents d) = true /\
    (forall k e, In (k, e) (r_ents d) -> opt_le lo k = true /\ opt_lt k hi = true) /\
    all_sorted f (r_ents d) = true.

  Lemma dec_ok_all : forall f, dec_ok f.
  Proof.
    induction f as [|f IH]; intros base limit inline lo hi d H O; [discriminate|].
    cbn [dec_page] in H.
    destruct (u16 rd (base + 8) =? leaf_page_flag) eqn:EL.
    - (* leaf *)
      match type of H with match mapM ?F ?L with _ => _ end = _ => set (F0 := F) in H; set (L0 := L) in * end.
      destruct (mapM F0 L0) as [rs|] eqn:EM; [|discriminate].
      injection H as <-. cbn [r_order r_ents] in *.
      clearbody L0. apply mapM_Forall2 in EM.
      apply andb_true_iff in O. destruct O as [O O4]. apply andb_true_iff in O. destruct O as [O O3].
      apply andb_true_iff in O. destruct O as [O1 O2].
      set (kf := fun x : N * N * N * N => let '(_, kp, ks, _) := x in rbytes rd (N.to_nat ks) kp) in *.
      set (g := fun r : list N * entry * list (N * N * N) * bool * bool => let '(k, e, _, _, _) := r in (k, e)).
      assert (map fst (map g rs) = map kf L0) as EK.
      { rewrite map_map. eapply Forall2_map_key; [exact EM|].
        intros [[[efl kp] ks] vs] [[[[k e] pg] o] b] E. unfold F0 in E. cbn [g fst kf].
        destruct (N.odd efl).
        - match type of E with match ?X with _ => _ end = _ => destruct X as [d0|]; [|discriminate] end.
          now injection E as <- _ _ _ _.
        - now injection E as <- _ _ _ _. }
      destruct (leaf_order_sorted _ _ lo hi EK O1 O2 O3) as [S1 S2].
      split; [exact S1|]. split; [exact S2|].
      rewrite all_sorted_S, S1. cbn [andb]. apply forallb_forall. intros [k e] I.
      apply in_map_iff in I. destruct I as ([[[[k1 e1] pg] o] b] & E1 & I). cbn [g] in E1. injection E1 as -> ->.
      rewrite forallb_forall in O4. specialize (O4 _ I). cbn beta iota in O4. subst o.
      destruct (Forall2_In_r _ _ _ EM _ I) as ([[[efl kp] ks] vs] & _ & E). unfold F0 in E.
      unfold sub_sorted. cbn [snd].
      destruct (N.odd efl).
      + match type of E with match ?X with _ => _ end = _ => destruct X as [d0|] eqn:ED; [|discriminate] end.
        injection E as _ <- _ OO _.
        destruct (u64 rd (kp + ks) =? 0); apply IH in ED; try (symmetry; exact OO); tauto.
      + now injection E as _ <- _ _.
    - (* branch *)
      destruct (u16 rd (base + 8) =? branch_page_flag); [|discriminate].
      destruct inline; [discriminate|].
      match type of H with match mapM ?F (combine ?L _) with _ => _ end = _ => set (F0 := F) in H; set (L0 := L) in * end.
      clearbody L0.
      set (kf := fun x : N * N * N => let '(kp, ks, _) := x in rbytes rd (N.to_nat ks) kp) in *.
      match type of H with match ?X with _ => _ end = _ => destruct X as [rs|] eqn:EM; [|discriminate] end.
      injection H as <-. cbn [r_order r_ents] in *.
      apply mapM_Forall2 in EM.
      apply andb_true_iff in O. destruct O as [O _]. apply andb_true_iff in O. destruct O as [O O4].
      apply andb_true_iff in O. destruct O as [O O3]. apply andb_true_iff in O. destruct O as [O1 O2].
      rewrite forallb_forall in O4.
      assert (forall d0, In d0 rs -> all_sorted f (r_ents d0) = true) as DEEP.
      { intros d0 I. destruct (Forall2_In_r _ _ _ EM _ I) as ([[[kp ks] child] h] & _ & E). unfold F0 in E.
        apply IH in E. apply E. now apply O4. }
      assert (Forall2 (fun xh d => child_ok (kf (fst xh)) (snd xh) (r_ents d))
                      (combine L0 (map Some (tl (map kf L0)) ++ [hi])) rs) as CH.
      { eapply Forall2_impl_In_r; [exact EM|]. intros [[[kp ks] child] h] d0 I E. unfold F0 in E.
        apply IH in E. destruct (E (O4 _ I)) as (E1 & E2 & _). cbn [fst snd kf]. split; [exact E1|].
        intros k' e I'. destruct (E2 _ _ I') as [I1 I2]. cbn [opt_le] in I1.
        rewrite negb_true_iff in I1. split; assumption. }
      destruct (branch_concat_sorted kf hi L0 rs O1 O3 CH) as [S1 S2].
      split; [exact S1|]. split.
      + intros k e I. destruct (S2 _ _ I) as [I1 I2]. split; [|exact I2].
        exact (head_bound _ _ _ O2 I1).
      + rewrite all_sorted_S, S1. cbn [andb]. apply forallb_forall. intros x I.
        apply in_flat_map in I. destruct I as (d0 & I0 & I).
        pose proof (all_sorted_mono _ _ (DEEP _ I0)) as M. rewrite all_sorted_S in M.
        apply andb_true_iff in M. destruct M as [_ M]. rewrite forallb_forall in M. now apply M.
  Qed.

  (** Main result 1: the order flag implies a sorted association list (reference-map sense) within the bounds. *)
  Theorem dec_page_sorted : forall fuel base limit inline lo hi d,
    dec_page rd ps fuel base limit inline lo hi = Some d -> r_order d = true ->
    keys_sorted (r_ents d) = true /\
    (forall k e, In (k, e) (r_ents d) -> opt_le lo k = true /\ opt_lt k hi = true).
  Proof.
    intros fuel base limit inline lo hi d H O. destruct (dec_ok_all fuel _ _ _ _ _ _ H O) as (A & B & _). now split.
  Qed.

  (** Main result 2: ... and so is every nested bucket, at every depth. *)
  Theorem dec_page_sorted_deep : forall fuel base limit inline lo hi d,
    dec_page rd ps fuel base limit inline lo hi = Some d -> r_order d = true ->
    all_sorted fuel (r_ents d) = true.
  Proof.
    intros fuel base limit inline lo hi d H O. now destruct (dec_ok_all fuel _ _ _ _ _ _ H O) as (_ & _ & C).
  Qed.
End Order.

(** * fuel-free readings of [all_sorted] *)

(** [inside es ents]: [es] is the entry list of a nested bucket somewhere (at any depth) inside [ents] *)
Inductive inside (es : list (bytes * entry)) : list (bytes * entry) -> Prop :=
| inside_here k s ents : In (k, Sub s es) ents -> inside es ents
| inside_deeper k s es0 ents : In (k, Sub s es0) ents -> inside es es0 -> inside es ents.

Lemma all_sorted_inside es ents : inside es ents -> forall f, all_sorted f ents = true -> keys_sorted es = true.
Proof.
  induction 1 as [k s ents I | k s es0 ents I _ IH]; intros [|f] H; try discriminate;
    rewrite all_sorted_S in H; apply andb_true_iff in H; destruct H as [_ H];
    rewrite forallb_forall in H; specialize (H _ I); unfold sub_sorted in H; cbn [snd] in H.
  - eapply all_sorted_keys; eauto.
  - eapply IH; eauto.
Qed.

(** structural (fuel-free) boolean version *)
Fixpoint entry_deep_sorted (e : entry) : bool :=
  match e with
  | Val _ => true
  | Sub _ es => keys_sorted es &&
      (fix go (l : list (bytes * entry)) : bool :=
         match l with [] => true | (_, e') :: r => entry_deep_sorted e' && go r end) es
  end.
Definition deep_sorted (ents : list (bytes * entry)) : bool :=
  keys_sorted ents && forallb (fun ke => entry_deep_sorted (snd ke)) ents.

Lemma entry_deep_sorted_Sub s es : entry_deep_sorted (Sub s es) = deep_sorted es.
Proof.
  unfold deep_sorted. cbn [entry_deep_sorted]. f_equal.
  induction es as [|[k e] es IH]; [reflexivity|]. cbn [forallb snd]. now rewrite IH.
Qed.

Lemma all_sorted_deep_sorted f : forall ents, all_sorted f ents = true -> deep_sorted ents = true.
Proof.
  induction f as [|f IH]; intros ents H; [discriminate|].
  rewrite all_sorted_S in H. apply andb_true_iff in H. destruct H as [H1 H2].
  unfold deep_sorted. rewrite H1. cbn [andb]. rewrite forallb_forall in *. intros [k e] I.
  specialize (H2 _ I). unfold sub_sorted in H2. cbn [snd] in *. destruct e as [v|s es]; [reflexivity|].
  rewrite entry_deep_sorted_Sub. now apply IH.
Qed.

(** Every nested bucket anywhere inside the decoded entries is sorted (fuel-free statement). *)
Theorem dec_page_sorted_nested rd ps fuel base limit inline lo hi d :
  dec_page rd ps fuel base limit inline lo hi = Some d -> r_order d = true ->
  deep_sorted (r_ents d) = true /\ forall es, inside es (r_ents d) -> keys_sorted es = true.
Proof.
  intros H O. pose proof (dec_page_sorted_deep _ _ _ _ _ _ _ _ _ H O) as A. split.
  - eapply all_sorted_deep_sorted; eauto.
  - intros es I. eapply all_sorted_inside; eauto.
Qed.

(** The whole file: a decoded view with the order flag set has a reference-map-sorted root bucket at all levels. *)
Theorem dec_with_meta_sorted rd ps fuel m v :
  dec_with_meta rd ps fuel m = Some v -> v_order v = true ->
  keys_sorted (snd (v_root v)) = true /\ all_sorted fuel (snd (v_root v)) = true.
Proof.
  unfold dec_with_meta. intros H O.
  match type of H with match ?X with _ => _ end = _ => destruct X as [d|] eqn:ED; [|discriminate] end.
  injection H as <-. cbn [v_order v_root snd] in *.
  pose proof (dec_page_sorted_deep _ _ _ _ _ _ _ _ _ ED O) as A. split; [eapply all_sorted_keys; eauto | exact A].
Qed.

Print Assumptions dec_page_sorted.
Print Assumptions dec_page_sorted_deep.
Print Assumptions dec_page_sorted_nested.
Print Assumptions dec_with_meta_sorted.
