(** NodeProofs: theorems about Node.v (the model of node.go): bisection = linear search, a sorted node is a sorted
    map under put/del, sizeLessThan, split loses and reorders nothing, write = the published page layout,
    write/read round trip. *)
From Bbolt Require Import Base BaseProofs Consts Spec SpecProofs Fnv Layout LayoutEnc LayoutProofs LayoutPageProofs Node.
From Coq Require Import ZifyN ZifyNat ZifyBool.

(** * T1: sort.Search *)
Lemma div2_mid i j : (i < j)%nat -> (i <= Nat.div2 (i + j) < j)%nat.
Proof.
  intros H. rewrite Nat.div2_div. split.
  - apply Nat.div_le_lower_bound; lia.
  - apply Nat.div_lt_upper_bound; lia.
Qed.

(** [f] monotone on [0, j): the invariant of the bisection *)
Lemma bsearch_spec fuel : forall f i j,
  (j - i < fuel)%nat -> (i <= j)%nat ->
  (forall a b, (a <= b)%nat -> (b < j)%nat -> f a = true -> f b = true) ->
  let r := bsearch fuel f i j in
  (i <= r <= j)%nat /\ (forall k, (i <= k < r)%nat -> f k = false) /\ ((r < j)%nat -> f r = true).
Proof.
  induction fuel as [|fu IH]; intros f i j Hfu Hij Hmono; [lia|].
  cbn [bsearch]. destruct (Nat.ltb_spec i j) as [Hlt|Hge].
  - pose proof (div2_mid i j Hlt) as Hh. set (h := Nat.div2 (i + j)) in *.
    destruct (f h) eqn:Fh.
    + destruct (IH f i h) as (B & L & T); [lia | lia | intros a b Hab Hb; apply Hmono; lia |].
      cbv zeta in *. set (r := bsearch fu f i h) in *.
      split; [lia|]. split; [exact L|].
      intros Hr. destruct (Nat.eq_dec r h) as [E|NE]; [rewrite E; exact Fh | apply T; lia].
    + destruct (IH f (S h) j) as (B & L & T); [lia | lia | exact Hmono |].
      cbv zeta in *. set (r := bsearch fu f (S h) j) in *.
      split; [lia|]. split; [|exact T].
      intros k Hk. destruct (Nat.le_gt_cases k h) as [Hkh|Hkh]; [|apply L; lia].
      destruct (f k) eqn:Fk; [|reflexivity].
      rewrite (Hmono k h Hkh (proj2 Hh) Fk) in Fh. discriminate.
  - cbv zeta. split; [lia|]. split; [intros k Hk; lia | lia].
Qed.

(** the general statement: for [f] monotone on [0, n), [search n f] is the least index in [0, n] at which [f]
    holds, [n] if there is none *)
Theorem search_spec n f :
  (forall a b, (a <= b)%nat -> (b < n)%nat -> f a = true -> f b = true) ->
  (search n f <= n)%nat /\ (forall k, (k < search n f)%nat -> f k = false) /\ ((search n f < n)%nat -> f (search n f) = true).
Proof.
  intros Hmono. unfold search.
  destruct (bsearch_spec (S n) f 0%nat n) as (B & L & T); [lia | lia | exact Hmono |].
  cbv zeta in *. split; [lia|]. split; [intros k Hk; apply L; lia | exact T].
Qed.

Theorem search_least n f r :
  (forall a b, (a <= b)%nat -> (b < n)%nat -> f a = true -> f b = true) ->
  (r <= n)%nat -> (forall k, (k < r)%nat -> f k = false) -> ((r < n)%nat -> f r = true) ->
  search n f = r.
Proof.
  intros Hmono Hr Hl Ht. destruct (search_spec n f Hmono) as (B & L & T).
  destruct (Nat.lt_trichotomy (search n f) r) as [H|[H|H]]; [|exact H|].
  - rewrite (Hl _ H) in T. specialize (T ltac:(lia)). discriminate.
  - rewrite (L _ H) in Ht. specialize (Ht ltac:(lia)). discriminate.
Qed.

(** ** sorted key lists *)
Lemma blt_irrefl a : blt a a = false.
Proof. unfold blt. now rewrite bcmp_refl. Qed.

Lemma blt_false_trans a b k : blt a k = false -> blt a b = true -> blt b k = false.
Proof.
  intros H1 H2. destruct (blt b k) eqn:E; [|reflexivity]. rewrite (blt_trans _ _ _ H2 E) in H1. discriminate.
Qed.

Lemma beq_true_iff a b : beq a b = true <-> a = b.
Proof.
  unfold beq. split.
  - destruct (bcmp a b) eqn:E; try discriminate. intros _. now apply bcmp_eq.
  - intros ->. now rewrite bcmp_refl.
Qed.

Lemma beq_false_iff a b : beq a b = false <-> a <> b.
Proof.
  split.
  - intros H E. apply beq_true_iff in E. congruence.
  - intros H. destruct (beq a b) eqn:E; [|reflexivity]. apply beq_true_iff in E. contradiction.
Qed.

Definition isorted (l : list inode) : Prop := keys_sorted (keys_of l) = true.

Lemma isorted_cons x l : isorted (x :: l) <->
  Forall (fun y => blt (i_key x) (i_key y) = true) l /\ isorted l.
Proof.
  unfold isorted. revert x. induction l as [|y l IH]; intros x.
  - cbn. split; [intros _; split; [constructor | reflexivity] | reflexivity].
  - change (keys_sorted (keys_of (x :: y :: l))) with (blt (i_key x) (i_key y) && keys_sorted (keys_of (y :: l))).
    rewrite andb_true_iff. split.
    + intros [H1 H2]. split; [|exact H2]. constructor; [exact H1|].
      apply IH in H2. destruct H2 as [H2 _]. eapply Forall_impl; [|exact H2].
      intros z Hz. cbv beta in *. eapply blt_trans; eauto.
    + intros [H1 H2]. split; [now inversion H1 | exact H2].
Qed.

Lemma isorted_nil : isorted [].
Proof. reflexivity. Qed.

(** the elements below [k] of a sorted list *)
Definition below (k : bytes) (i : inode) : bool := blt (i_key i) k.

Lemma below_none x l k : Forall (fun y => blt (i_key x) (i_key y) = true) l -> below k x = false ->
  Forall (fun y => below k y = false) l.
Proof.
  intros H Hx. eapply Forall_impl; [|exact H]. intros y Hy. cbv beta in Hy. unfold below in *.
  eapply blt_false_trans; eauto.
Qed.

Lemma filter_none {A} (p : A -> bool) l : Forall (fun y => p y = false) l -> filter p l = [].
Proof. induction 1 as [|y l Hy _ IH]; [reflexivity|]. cbn. now rewrite Hy. Qed.

Lemma below_index l k : isorted l -> forall i x, nth_error l i = Some x ->
  (below k x = true <-> (i < length (filter (below k) l))%nat).
Proof.
  induction l as [|y l IH]; intros Hs i x Hn; [destruct i; discriminate|].
  apply isorted_cons in Hs. destruct Hs as [Hall Hs]. cbn [filter].
  destruct (below k y) eqn:By.
  - cbn [length]. destruct i as [|i]; cbn in Hn.
    + inversion Hn; subst. rewrite By. split; [lia | reflexivity].
    + rewrite (IH Hs i x Hn). lia.
  - pose proof (below_none _ _ _ Hall By) as Hnone. rewrite (filter_none _ _ Hnone).
    destruct i as [|i]; cbn in Hn.
    + inversion Hn; subst. rewrite By. cbn. split; [discriminate | lia].
    + apply nth_error_In in Hn. rewrite Forall_forall in Hnone. rewrite (Hnone _ Hn). cbn. split; [discriminate | lia].
Qed.

Lemma key_ge_mono l k : isorted l ->
  forall a b, (a <= b)%nat -> (b < length l)%nat -> key_ge l k a = true -> key_ge l k b = true.
Proof.
  intros Hs a b Hab Hb. unfold key_ge.
  destruct (nth_error l a) as [xa|] eqn:Ea; [|apply nth_error_None in Ea; lia].
  destruct (nth_error l b) as [xb|] eqn:Eb; [|reflexivity].
  pose proof (below_index l k Hs a xa Ea) as Ia. pose proof (below_index l k Hs b xb Eb) as Ib.
  unfold below in *. destruct (blt (i_key xa) k), (blt (i_key xb) k); cbn; try reflexivity; try discriminate.
  intros _. destruct Ib as [Ib _]. specialize (Ib eq_refl).
  destruct Ia as [_ Ia]. specialize (Ia ltac:(lia)). discriminate.
Qed.

Lemma filter_len_le {A} (p : A -> bool) l : (length (filter p l) <= length l)%nat.
Proof. induction l as [|x l IH]; [cbn; lia|]. cbn. destruct (p x); cbn; lia. Qed.

Theorem search_sorted l k : keys_sorted (keys_of l) = true ->
  search (length l) (key_ge l k) = length (filter (fun i => blt (i_key i) k) l).
Proof.
  intros Hs. fold (isorted l) in Hs. change (fun i => blt (i_key i) k) with (below k).
  set (c := length (filter (below k) l)).
  assert (Hc : (c <= length l)%nat) by apply filter_len_le.
  apply search_least.
  - apply key_ge_mono. exact Hs.
  - exact Hc.
  - intros j Hj. unfold key_ge. destruct (nth_error l j) as [x|] eqn:E; [|apply nth_error_None in E; lia].
    destruct (below_index l k Hs j x E) as [_ B]. change (blt (i_key x) k) with (below k x). rewrite (B Hj). reflexivity.
  - intros Hlt. unfold key_ge. destruct (nth_error l c) as [x|] eqn:E; [|reflexivity].
    destruct (below_index l k Hs c x E) as [B _]. change (blt (i_key x) k) with (below k x).
    destruct (below k x); [|reflexivity]. specialize (B eq_refl). fold c in B. lia.
Qed.

(** * T2: a sorted node is a sorted map *)
Fixpoint ins (ni : inode) (l : list inode) : list inode :=
  match l with
  | [] => [ni]
  | x :: r => match bcmp (i_key ni) (i_key x) with Eq => ni :: r | Lt => ni :: l | Gt => x :: ins ni r end
  end.
Fixpoint rem (k : bytes) (l : list inode) : list inode :=
  match l with
  | [] => []
  | x :: r => match bcmp k (i_key x) with Eq => r | Lt => l | Gt => x :: rem k r end
  end.

Lemma cmp_cases k x :
  match bcmp k (i_key x) with
  | Eq => below k x = false /\ beq (i_key x) k = true /\ i_key x = k
  | Lt => below k x = false /\ beq (i_key x) k = false /\ blt k (i_key x) = true
  | Gt => below k x = true /\ beq (i_key x) k = false /\ blt k (i_key x) = false
  end.
Proof.
  unfold below, blt, beq. rewrite (bcmp_antisym k (i_key x)).
  destruct (bcmp k (i_key x)) eqn:E; cbn; repeat split. symmetry. now apply bcmp_eq.
Qed.

(** the position found by the bisection, and whether the key sits there *)
Definition pos_of (k : bytes) (l : list inode) : nat := length (filter (below k) l).
Definition exact_at (k : bytes) (l : list inode) (c : nat) : bool :=
  match nth_error l c with Some i => beq (i_key i) k | None => false end.

Lemma pos_of_cons_ge k x r : isorted (x :: r) -> below k x = false -> pos_of k (x :: r) = 0%nat.
Proof.
  intros Hs Hx. apply isorted_cons in Hs. destruct Hs as [Hall _].
  unfold pos_of. cbn [filter]. rewrite Hx. now rewrite (filter_none _ _ (below_none _ _ _ Hall Hx)).
Qed.
Lemma pos_of_cons_lt k x r : below k x = true -> pos_of k (x :: r) = S (pos_of k r).
Proof. intros Hx. unfold pos_of. cbn [filter]. now rewrite Hx. Qed.

Lemma put_list ni l : isorted l ->
  let k := i_key ni in let c := pos_of k l in
  firstn c l ++ ni :: skipn (if exact_at k l c then S c else c) l = ins ni l.
Proof.
  cbv zeta. induction l as [|x r IH]; intros Hs; [reflexivity|].
  pose proof (cmp_cases (i_key ni) x) as C. cbn [ins].
  destruct (bcmp (i_key ni) (i_key x)); destruct C as (B & Q & K).
  - rewrite (pos_of_cons_ge _ _ _ Hs B). unfold exact_at. cbn [nth_error firstn app]. rewrite Q. reflexivity.
  - rewrite (pos_of_cons_ge _ _ _ Hs B). unfold exact_at. cbn [nth_error firstn app]. rewrite Q. reflexivity.
  - rewrite (pos_of_cons_lt _ _ _ B). apply isorted_cons in Hs. destruct Hs as [_ Hs]. specialize (IH Hs).
    unfold exact_at in *. cbn [nth_error firstn app]. rewrite <- IH. f_equal. f_equal. f_equal.
    destruct (match nth_error r (pos_of (i_key ni) r) with Some i => beq (i_key i) (i_key ni) | None => false end); reflexivity.
Qed.

Theorem put_is_insert mark n k v pg fl :
  keys_sorted (keys_of (n_inodes n)) = true -> pg < mark -> len k <> 0 ->
  put mark n k k v pg fl =
  Ok {| n_leaf := n_leaf n; n_unbal := n_unbal n;
        n_inodes := ins {| i_flags := fl; i_key := k; i_val := v; i_pgid := pg |} (n_inodes n) |}.
Proof.
  intros Hs Hpg Hk. unfold put.
  destruct (N.leb_spec mark pg) as [H|_]; [lia|].
  destruct (N.eqb_spec (len k) 0) as [H|_]; [contradiction|].
  f_equal. f_equal. rewrite (search_sorted _ k Hs).
  exact (put_list {| i_flags := fl; i_key := k; i_val := v; i_pgid := pg |} (n_inodes n) Hs).
Qed.

Lemma ins_head_bound k0 ni l :
  Forall (fun y => blt k0 (i_key y) = true) l -> blt k0 (i_key ni) = true ->
  Forall (fun y => blt k0 (i_key y) = true) (ins ni l).
Proof.
  induction l as [|x r IH]; intros Hl Hn; cbn [ins]; [constructor; [exact Hn | constructor]|].
  inversion Hl as [|? ? Hx Hr]; subst.
  destruct (bcmp (i_key ni) (i_key x)); constructor; auto.
Qed.

Theorem ins_sorted ni l : keys_sorted (keys_of l) = true -> keys_sorted (keys_of (ins ni l)) = true.
Proof.
  fold (isorted l). fold (isorted (ins ni l)).
  induction l as [|x r IH]; intros Hs; [reflexivity|].
  pose proof (cmp_cases (i_key ni) x) as C. cbn [ins].
  pose proof Hs as Hs0. apply isorted_cons in Hs. destruct Hs as [Hall Hs].
  destruct (bcmp (i_key ni) (i_key x)); destruct C as (B & Q & K).
  - apply isorted_cons. rewrite <- K. split; assumption.
  - apply isorted_cons. split; [|exact Hs0]. constructor; [exact K|].
    eapply Forall_impl; [|exact Hall]. intros y Hy. cbv beta in *. eapply blt_trans; eauto.
  - apply isorted_cons. split; [|apply IH; exact Hs]. apply ins_head_bound; [exact Hall | exact B].
Qed.

(** [ilookup] scans the whole list, so the two lookup laws of [ins] hold for every list (sortedness is not needed) *)
Theorem ins_lookup_same ni l : ilookup (i_key ni) (ins ni l) = Some ni.
Proof.
  induction l as [|x r IH]; cbn [ins ilookup].
  - now rewrite (proj2 (beq_true_iff _ _) eq_refl).
  - pose proof (cmp_cases (i_key ni) x) as C.
    destruct (bcmp (i_key ni) (i_key x)); destruct C as (B & Q & K); cbn [ilookup].
    + now rewrite (proj2 (beq_true_iff _ _) eq_refl).
    + now rewrite (proj2 (beq_true_iff _ _) eq_refl).
    + rewrite Q. exact IH.
Qed.

Theorem ins_lookup_other ni l k' : k' <> i_key ni -> ilookup k' (ins ni l) = ilookup k' l.
Proof.
  intros Hne. assert (N : beq (i_key ni) k' = false) by (apply beq_false_iff; congruence).
  induction l as [|x r IH]; cbn [ins ilookup]; [now rewrite N|].
  pose proof (cmp_cases (i_key ni) x) as C.
  destruct (bcmp (i_key ni) (i_key x)); destruct C as (B & Q & K); cbn [ilookup].
  - rewrite K, N. reflexivity.
  - rewrite N. reflexivity.
  - destruct (beq (i_key x) k'); [reflexivity | exact IH].
Qed.

Lemma del_list k l : isorted l ->
  let c := pos_of k l in
  (if exact_at k l c then firstn c l ++ skipn (S c) l else l) = rem k l.
Proof.
  cbv zeta. induction l as [|x r IH]; intros Hs; [reflexivity|].
  pose proof (cmp_cases k x) as C. cbn [rem].
  destruct (bcmp k (i_key x)); destruct C as (B & Q & K).
  - rewrite (pos_of_cons_ge _ _ _ Hs B). unfold exact_at. cbn [nth_error]. rewrite Q. reflexivity.
  - rewrite (pos_of_cons_ge _ _ _ Hs B). unfold exact_at. cbn [nth_error]. rewrite Q. reflexivity.
  - rewrite (pos_of_cons_lt _ _ _ B). apply isorted_cons in Hs. destruct Hs as [_ Hs]. specialize (IH Hs).
    unfold exact_at in *. cbn [nth_error]. rewrite <- IH.
    destruct (match nth_error r (pos_of k r) with Some i => beq (i_key i) k | None => false end); reflexivity.
Qed.

Lemma del_unfold n k :
  del n k = let c := search (length (n_inodes n)) (key_ge (n_inodes n) k) in
            if exact_at k (n_inodes n) c
            then {| n_leaf := n_leaf n; n_unbal := true; n_inodes := firstn c (n_inodes n) ++ skipn (S c) (n_inodes n) |}
            else n.
Proof.
  unfold del, exact_at. cbv zeta.
  destruct (nth_error (n_inodes n) (search (length (n_inodes n)) (key_ge (n_inodes n) k))) as [i|]; reflexivity.
Qed.

Theorem del_is_remove n k : keys_sorted (keys_of (n_inodes n)) = true -> n_inodes (del n k) = rem k (n_inodes n).
Proof.
  intros Hs. rewrite del_unfold. cbv zeta. rewrite (search_sorted _ k Hs).
  rewrite <- (del_list k (n_inodes n) Hs). cbv zeta. fold (below k). fold (pos_of k (n_inodes n)).
  destruct (exact_at k (n_inodes n) (pos_of k (n_inodes n))); reflexivity.
Qed.

Lemma rem_head_bound k0 k l : isorted l ->
  Forall (fun y => blt k0 (i_key y) = true) l -> Forall (fun y => blt k0 (i_key y) = true) (rem k l).
Proof.
  induction l as [|x r IH]; intros Hs Hl; cbn [rem]; [constructor|].
  inversion Hl as [|? ? Hx Hr]; subst. apply isorted_cons in Hs. destruct Hs as [_ Hs].
  destruct (bcmp k (i_key x)); [exact Hr | exact Hl | constructor; auto].
Qed.

Theorem rem_sorted k l : keys_sorted (keys_of l) = true -> keys_sorted (keys_of (rem k l)) = true.
Proof.
  fold (isorted l). fold (isorted (rem k l)).
  induction l as [|x r IH]; intros Hs; [reflexivity|]. cbn [rem].
  pose proof Hs as Hs0. apply isorted_cons in Hs. destruct Hs as [Hall Hs].
  destruct (bcmp k (i_key x)); [exact Hs | exact Hs0 |].
  apply isorted_cons. split; [apply rem_head_bound; assumption | apply IH; exact Hs].
Qed.

Lemma ilookup_above k l : Forall (fun y => blt k (i_key y) = true) l -> ilookup k l = None.
Proof.
  induction 1 as [|y l Hy _ IH]; [reflexivity|]. cbn [ilookup].
  destruct (beq (i_key y) k) eqn:E; [|exact IH]. apply beq_true_iff in E. rewrite E, blt_irrefl in Hy. discriminate.
Qed.

Theorem rem_lookup_same k l : keys_sorted (keys_of l) = true -> ilookup k (rem k l) = None.
Proof.
  fold (isorted l). induction l as [|x r IH]; intros Hs; [reflexivity|]. cbn [rem].
  pose proof (cmp_cases k x) as C.
  apply isorted_cons in Hs. destruct Hs as [Hall Hs].
  destruct (bcmp k (i_key x)); destruct C as (B & Q & K).
  - apply ilookup_above. rewrite <- K. exact Hall.
  - apply ilookup_above. constructor; [exact K|].
    eapply Forall_impl; [|exact Hall]. intros y Hy. cbv beta in *. eapply blt_trans; eauto.
  - cbn [ilookup]. rewrite Q. apply IH. exact Hs.
Qed.

Theorem rem_lookup_other k k' l : keys_sorted (keys_of l) = true -> k' <> k -> ilookup k' (rem k l) = ilookup k' l.
Proof.
  fold (isorted l). intros Hs Hne. induction l as [|x r IH]; [reflexivity|]. cbn [rem].
  pose proof (cmp_cases k x) as C.
  apply isorted_cons in Hs. destruct Hs as [Hall Hs].
  destruct (bcmp k (i_key x)); destruct C as (B & Q & K).
  - cbn [ilookup]. rewrite K. now rewrite (proj2 (beq_false_iff k k') (fun E => Hne (eq_sym E))).
  - reflexivity.
  - cbn [ilookup]. destruct (beq (i_key x) k'); [reflexivity | apply IH; exact Hs].
Qed.

Lemma exact_exists k l : isorted l -> exact_at k l (pos_of k l) = existsb (fun i => beq (i_key i) k) l.
Proof.
  induction l as [|x r IH]; intros Hs; [reflexivity|].
  pose proof (cmp_cases k x) as C. cbn [existsb].
  destruct (bcmp k (i_key x)); destruct C as (B & Q & K).
  - rewrite (pos_of_cons_ge _ _ _ Hs B). unfold exact_at. cbn [nth_error]. rewrite Q. reflexivity.
  - rewrite (pos_of_cons_ge _ _ _ Hs B). unfold exact_at. cbn [nth_error]. rewrite Q. cbn [orb].
    apply isorted_cons in Hs. destruct Hs as [Hall _]. clear IH. symmetry.
    induction Hall as [|y r Hy _ IHr]; [reflexivity|]. cbn [existsb]. rewrite IHr, orb_false_r.
    apply beq_false_iff. intros E. rewrite E in Hy. pose proof (blt_trans _ _ _ K Hy) as F. rewrite blt_irrefl in F. discriminate.
  - rewrite (pos_of_cons_lt _ _ _ B). apply isorted_cons in Hs. destruct Hs as [_ Hs].
    rewrite Q. cbn [orb]. rewrite <- (IH Hs). reflexivity.
Qed.

Theorem del_unbalanced_iff n k : keys_sorted (keys_of (n_inodes n)) = true ->
  n_unbal (del n k) = n_unbal n || existsb (fun i => beq (i_key i) k) (n_inodes n).
Proof.
  intros Hs. rewrite del_unfold. cbv zeta. rewrite (search_sorted _ k Hs).
  fold (below k). fold (pos_of k (n_inodes n)). rewrite <- (exact_exists k _ Hs).
  destruct (exact_at k (n_inodes n) (pos_of k (n_inodes n))); cbn [n_unbal]; [now rewrite orb_true_r | now rewrite orb_false_r].
Qed.

Theorem put_panics_iff mark n ok nk v pg fl :
  put mark n ok nk v pg fl = Panic <-> (mark <= pg \/ len ok = 0 \/ len nk = 0).
Proof.
  unfold put. destruct (N.leb_spec mark pg); [split; [intros _; left; assumption | reflexivity]|].
  destruct (N.eqb_spec (len ok) 0); [split; [intros _; right; left; assumption | reflexivity]|].
  destruct (N.eqb_spec (len nk) 0); [split; [intros _; right; right; assumption | reflexivity]|].
  split; [discriminate | lia].
Qed.

Theorem put_never_out_of_fuel mark n ok nk v pg fl : put mark n ok nk v pg fl <> OutOfFuel.
Proof.
  unfold put. destruct (mark <=? pg); [discriminate|]. destruct (len ok =? 0); [discriminate|].
  destruct (len nk =? 0); discriminate.
Qed.

(** * T3: sizeLessThan *)
Lemma size_fold_ge leaf l : forall sz, sz <= fold_left (fun s i => s + isz leaf i) l sz.
Proof.
  induction l as [|x r IH]; intros sz; cbn [fold_left]; [lia|].
  specialize (IH (sz + isz leaf x)). lia.
Qed.

Lemma slt_loop_spec leaf v l : forall sz,
  slt_loop leaf v sz l = true <-> (l = [] \/ fold_left (fun s i => s + isz leaf i) l sz < v).
Proof.
  induction l as [|x r IH]; intros sz; cbn [slt_loop fold_left].
  - split; [intros _; left; reflexivity | reflexivity].
  - cbv zeta. pose proof (size_fold_ge leaf r (sz + isz leaf x)) as G.
    destruct (N.leb_spec v (sz + isz leaf x)) as [H|H].
    + split; [discriminate | intros [E|E]; [discriminate | lia]].
    + rewrite IH. split.
      * intros [E|E]; right; [subst r; cbn [fold_left]; exact H | exact E].
      * intros [E|E]; [discriminate | right; exact E].
Qed.

Theorem size_less_than_spec n v : size_less_than n v = true <-> (n_inodes n = [] \/ size n < v).
Proof. unfold size_less_than, size, size_of. apply slt_loop_spec. Qed.

(** * T4: split *)
Lemma split_index_loop_bounds leaf thr : forall cnt l i index sz,
  (cnt <= length l)%nat ->
  let r := fst (split_index_loop leaf thr l i cnt index sz) in
  (cnt = 0%nat -> r = index) /\
  ((0 < cnt)%nat -> (i <= r <= i + cnt - 1)%nat /\ ((2 <= r)%nat \/ r = (i + cnt - 1)%nat)).
Proof.
  induction cnt as [|c IH]; intros l i index sz Hc; cbv zeta.
  - split; [intros _; destruct l; reflexivity | lia].
  - destruct l as [|x l]; [cbn in Hc; lia|]. cbn [split_index_loop]. cbv zeta.
    split; [discriminate|]. intros _.
    destruct ((2 <=? i)%nat && (thr <? sz + isz leaf x)) eqn:T.
    + cbn [fst]. apply andb_true_iff in T. destruct T as [T _]. apply Nat.leb_le in T. lia.
    + destruct (IH l (S i) i (sz + isz leaf x)) as [Z P]; [cbn in Hc; lia|]. cbv zeta in *.
      destruct c as [|c]; [rewrite (Z eq_refl); lia|].
      specialize (P ltac:(lia)). lia.
Qed.

Lemma split_index_bounds leaf thr l : (4 < length l)%nat ->
  (2 <= fst (split_index leaf thr l) <= length l - 3)%nat.
Proof.
  intros H. unfold split_index.
  destruct (split_index_loop_bounds leaf thr (length l - 2) l 0 0 page_header_size) as [_ P]; [lia|].
  cbv zeta in P. specialize (P ltac:(lia)). lia.
Qed.

Lemma split_two_some leaf ps p l a b : split_two leaf ps p l = Some (a, b) ->
  a ++ b = l /\ (2 <= length a)%nat /\ (3 <= length b)%nat /\ (length b < length l)%nat.
Proof.
  unfold split_two. destruct (Nat.leb_spec (length l) 4) as [H|H]; [discriminate|]. cbn [orb].
  destruct (slt_loop leaf ps page_header_size l); [discriminate|].
  intros E. inversion E; subst. clear E.
  pose proof (split_index_bounds leaf (split_threshold ps p) l H) as B.
  set (idx := fst (split_index leaf (split_threshold ps p) l)) in *.
  split; [apply firstn_skipn|]. rewrite firstn_length, skipn_length. lia.
Qed.

Lemma split_two_none leaf ps p l : split_two leaf ps p l = None <->
  ((length l <= 4)%nat \/ slt_loop leaf ps page_header_size l = true).
Proof.
  unfold split_two. destruct (Nat.leb_spec (length l) 4) as [H|H]; cbn [orb].
  - split; [left; exact H | reflexivity].
  - destruct (slt_loop leaf ps page_header_size l); split; try reflexivity; try discriminate.
    + right; reflexivity.
    + intros [X|X]; [lia | discriminate].
Qed.

Lemma split_loop_total leaf ps p : forall fuel l, (length l < fuel)%nat -> exists pieces, split_loop fuel leaf ps p l = Ok pieces.
Proof.
  induction fuel as [|f IH]; intros l Hf; [lia|]. cbn [split_loop].
  destruct (split_two leaf ps p l) as [[a b]|] eqn:E; [|eexists; reflexivity].
  apply split_two_some in E. destruct E as (_ & _ & _ & Hb).
  destruct (IH b ltac:(lia)) as [r Hr]. rewrite Hr. cbn [bindr]. eexists; reflexivity.
Qed.

Theorem split_total n ps p : exists pieces, split n ps p = Ok pieces.
Proof. unfold split. apply split_loop_total. lia. Qed.

(** everything about the result of the loop at once *)
Lemma split_loop_props leaf ps p : forall fuel l pieces, split_loop fuel leaf ps p l = Ok pieces ->
  concat pieces = l /\ pieces <> [] /\
  (l <> [] -> Forall (fun q => q <> []) pieces) /\
  Forall (fun q => 2 <= length q)%nat (removelast pieces) /\
  ((2 <= length l)%nat -> Forall (fun q => 2 <= length q)%nat pieces) /\
  (pieces <> [l] -> (3 <= length (last pieces []))%nat).
Proof.
  induction fuel as [|f IH]; intros l pieces H; [discriminate|]. cbn [split_loop] in H.
  destruct (split_two leaf ps p l) as [[a b]|] eqn:E.
  - apply split_two_some in E. destruct E as (Eab & Ha & Hb & _).
    destruct (split_loop f leaf ps p b) as [r| |] eqn:R; try discriminate. cbn [bindr] in H.
    inversion H; subst pieces. clear H.
    destruct (IH b r R) as (I1 & I2 & I3 & I4 & I5 & I6).
    assert (Hbn : b <> []) by (intros ->; cbn in Hb; lia).
    split; [cbn [concat]; rewrite I1; exact Eab|]. split; [discriminate|].
    split; [intros _; constructor; [intros ->; cbn in Ha; lia | apply I3; exact Hbn]|].
    split; [|split].
    + destruct r as [|q r]; [contradiction|]. change (removelast (a :: q :: r)) with (a :: removelast (q :: r)).
      constructor; [exact Ha | exact I4].
    + intros _. constructor; [exact Ha | apply I5; lia].
    + intros _. destruct r as [|q r]; [contradiction|]. change (last (a :: q :: r) []) with (last (q :: r) []).
      destruct (list_eq_dec (list_eq_dec (fun x y : inode => ltac:(decide equality; try apply N.eq_dec; apply (list_eq_dec N.eq_dec)) : {x = y} + {x <> y})) (q :: r) [b]) as [Q|Q].
      * rewrite Q. cbn [last]. exact Hb.
      * apply I6. exact Q.
  - inversion H; subst pieces. clear H. cbn [concat removelast]. rewrite app_nil_r.
    split; [reflexivity|]. split; [discriminate|]. split; [intros Hl; constructor; [exact Hl | constructor]|].
    split; [constructor|]. split; [intros Hl; constructor; [exact Hl | constructor]|]. intros X; contradiction.
Qed.

Theorem split_concat n ps p pieces : split n ps p = Ok pieces -> concat pieces = n_inodes n.
Proof. unfold split. intros H. apply (split_loop_props _ _ _ _ _ _ H). Qed.

Theorem split_nonempty n ps p pieces : split n ps p = Ok pieces -> n_inodes n <> [] -> Forall (fun q => q <> []) pieces.
Proof. unfold split. intros H. apply (split_loop_props _ _ _ _ _ _ H). Qed.

Theorem split_nonlast_ge2 n ps p pieces : split n ps p = Ok pieces -> Forall (fun q => 2 <= length q)%nat (removelast pieces).
Proof. unfold split. intros H. apply (split_loop_props _ _ _ _ _ _ H). Qed.

(** stronger than asked: two elements in the node suffice (the asked hypothesis is 4 < length) *)
Theorem split_all_ge2 n ps p pieces : split n ps p = Ok pieces -> (2 <= length (n_inodes n))%nat ->
  Forall (fun q => 2 <= length q)%nat pieces.
Proof. unfold split. intros H. apply (split_loop_props _ _ _ _ _ _ H). Qed.

Theorem split_last_ge2 n ps p pieces : split n ps p = Ok pieces -> (4 < length (n_inodes n))%nat ->
  Forall (fun q => 2 <= length q)%nat pieces.
Proof. intros H Hl. apply (split_all_ge2 n ps p pieces H). lia. Qed.

(** after any actual split the last piece has at least three elements *)
Theorem split_last_ge3 n ps p pieces : split n ps p = Ok pieces -> pieces <> [n_inodes n] ->
  (3 <= length (last pieces []))%nat.
Proof. unfold split. intros H. apply (split_loop_props _ _ _ _ _ _ H). Qed.

Theorem split_fits n ps p : size n < ps -> split n ps p = Ok [n_inodes n].
Proof.
  intros H. unfold split. cbn [split_loop].
  assert (E : split_two (n_leaf n) ps p (n_inodes n) = None).
  { apply split_two_none. right. apply (proj2 (size_less_than_spec n ps)). right. exact H. }
  now rewrite E.
Qed.

Theorem split_small n ps p : (length (n_inodes n) <= 4)%nat -> split n ps p = Ok [n_inodes n].
Proof.
  intros H. unfold split. cbn [split_loop].
  assert (E : split_two (n_leaf n) ps p (n_inodes n) = None) by (apply split_two_none; left; exact H).
  now rewrite E.
Qed.

Lemma keys_of_concat pieces : concat (map keys_of pieces) = keys_of (concat pieces).
Proof.
  induction pieces as [|q r IH]; [reflexivity|]. cbn [map concat]. unfold keys_of in *. now rewrite map_app, IH.
Qed.

Theorem split_ok_model n ps p pieces : split n ps p = Ok pieces -> split_ok (n_inodes n) pieces = true.
Proof.
  unfold split. intros H. destruct (split_loop_props _ _ _ _ _ _ H) as (P1 & _ & P3 & P4 & _).
  unfold split_ok. cbv zeta. rewrite keys_of_concat, P1.
  destruct (list_eq_dec (list_eq_dec N.eq_dec) (keys_of (n_inodes n)) (keys_of (n_inodes n))) as [_|X]; [|contradiction].
  cbn [andb]. apply andb_true_iff. split.
  - destruct (n_inodes n) as [|x l] eqn:El; [reflexivity|].
    apply forallb_forall. intros q Hq. specialize (P3 ltac:(discriminate)). rewrite Forall_forall in P3.
    specialize (P3 q Hq). destruct q; [contradiction | reflexivity].
  - apply forallb_forall. intros q Hq. rewrite Forall_forall in P4. apply Nat.leb_le. apply P4. exact Hq.
Qed.

Theorem split_ok_sound l pieces : split_ok l pieces = true ->
  concat (map keys_of pieces) = keys_of l /\ (l <> [] -> Forall (fun q => q <> []) pieces) /\
  Forall (fun q => 2 <= length q)%nat (removelast pieces).
Proof.
  unfold split_ok. cbv zeta. intros H. apply andb_true_iff in H. destruct H as [H H3].
  apply andb_true_iff in H. destruct H as [H1 H2].
  split; [|split].
  - destruct (list_eq_dec (list_eq_dec N.eq_dec) (concat (map keys_of pieces)) (keys_of l)); [assumption | discriminate].
  - intros Hl. destruct l as [|x l]; [contradiction|]. apply Forall_forall. intros q Hq.
    rewrite forallb_forall in H2. specialize (H2 q Hq). destruct q; [discriminate | discriminate].
  - apply Forall_forall. intros q Hq. rewrite forallb_forall in H3. apply Nat.leb_le. apply H3. exact Hq.
Qed.

(** * T5: node.write produces the published page layout *)
Lemma enc_elems_leaf_spec l : forall doff, Forall (fun x => i_flags x = 0) l ->
  enc_elems true doff l = enc_leaf_elems doff (map (fun x => (i_key x, i_val x)) l).
Proof.
  induction l as [|x r IH]; intros doff H; [reflexivity|].
  inversion H as [|? ? Hx Hr]; subst. cbn [enc_elems map enc_leaf_elems fst snd].
  rewrite Hx, map_length, (IH _ Hr), <- !app_assoc. reflexivity.
Qed.

Lemma enc_data_leaf_spec l : enc_data l = leaf_data (map (fun x => (i_key x, i_val x)) l).
Proof. unfold enc_data, leaf_data. induction l as [|x r IH]; [reflexivity|]. cbn [flat_map map fst snd]. now rewrite IH. Qed.

Lemma enc_elems_branch_spec l : forall doff, Forall (fun x => i_val x = []) l ->
  enc_elems false doff l = enc_branch_elems doff (map (fun x => (i_key x, i_pgid x)) l).
Proof.
  induction l as [|x r IH]; intros doff H; [reflexivity|].
  inversion H as [|? ? Hx Hr]; subst. cbn [enc_elems map enc_branch_elems fst snd].
  rewrite Hx, map_length. change (len []) with 0. rewrite N.add_0_r, (IH _ Hr), <- !app_assoc. reflexivity.
Qed.

Lemma enc_data_branch_spec l : Forall (fun x => i_val x = []) l ->
  enc_data l = branch_data (map (fun x => (i_key x, i_pgid x)) l).
Proof.
  unfold enc_data, branch_data. induction 1 as [|x r Hx _ IH]; [reflexivity|].
  cbn [flat_map map fst snd]. now rewrite IH, Hx, app_nil_r.
Qed.

Lemma write_ok_inv n pg ov bytes : write n pg ov = Ok bytes ->
  bytes = enc_header pg (if n_leaf n then leaf_page_flag else branch_page_flag) (N.of_nat (length (n_inodes n))) ov
          ++ enc_elems (n_leaf n) 0 (n_inodes n) ++ enc_data (n_inodes n).
Proof.
  unfold write. cbv zeta.
  destruct (65535 <=? N.of_nat (length (n_inodes n))); [discriminate|].
  destruct (existsb (fun x => len (i_key x) =? 0) (n_inodes n)); [discriminate|].
  destruct (negb (n_leaf n) && existsb (fun x => i_pgid x =? pg) (n_inodes n)); [discriminate|].
  intros H. inversion H. reflexivity.
Qed.

Theorem write_leaf_is_spec n pg ov : n_leaf n = true -> Forall (fun x => i_flags x = 0) (n_inodes n) ->
  forall bytes, write n pg ov = Ok bytes ->
  bytes = enc_leaf_page_ov pg ov (map (fun x => (i_key x, i_val x)) (n_inodes n)).
Proof.
  intros Hl Hf bytes H. apply write_ok_inv in H. rewrite Hl in H. subst bytes.
  unfold enc_leaf_page_ov. rewrite map_length, (enc_elems_leaf_spec _ 0 Hf), enc_data_leaf_spec. reflexivity.
Qed.

Theorem write_branch_is_spec n pg ov : n_leaf n = false -> Forall (fun x => i_val x = []) (n_inodes n) ->
  forall bytes, write n pg ov = Ok bytes ->
  bytes = enc_branch_page pg ov (map (fun x => (i_key x, i_pgid x)) (n_inodes n)).
Proof.
  intros Hl Hf bytes H. apply write_ok_inv in H. rewrite Hl in H. subst bytes.
  unfold enc_branch_page. rewrite map_length, (enc_elems_branch_spec _ 0 Hf), (enc_data_branch_spec _ Hf). reflexivity.
Qed.

Theorem write_panics_iff n pg ov :
  write n pg ov = Panic <->
  (65535 <= N.of_nat (length (n_inodes n)) \/
   (exists x, In x (n_inodes n) /\ len (i_key x) = 0) \/
   (n_leaf n = false /\ exists x, In x (n_inodes n) /\ i_pgid x = pg)).
Proof.
  unfold write. cbv zeta.
  destruct (N.leb_spec 65535 (N.of_nat (length (n_inodes n)))) as [H1|H1]; [split; [intros _; left; exact H1 | reflexivity]|].
  destruct (existsb (fun x => len (i_key x) =? 0) (n_inodes n)) eqn:E2.
  { split; [intros _ | reflexivity]. right; left. apply existsb_exists in E2. destruct E2 as (x & Hx & E).
    exists x. split; [exact Hx | now apply N.eqb_eq]. }
  destruct (negb (n_leaf n) && existsb (fun x => i_pgid x =? pg) (n_inodes n)) eqn:E3.
  { split; [intros _ | reflexivity]. right; right. apply andb_true_iff in E3. destruct E3 as [L E3].
    split; [now destruct (n_leaf n)|]. apply existsb_exists in E3. destruct E3 as (x & Hx & E).
    exists x. split; [exact Hx | now apply N.eqb_eq]. }
  split; [discriminate|]. intros [H|[(x & Hx & E)|(L & x & Hx & E)]]; exfalso.
  - lia.
  - assert (X : existsb (fun x => len (i_key x) =? 0) (n_inodes n) = true)
      by (apply existsb_exists; exists x; split; [exact Hx | now apply N.eqb_eq]).
    congruence.
  - assert (X : existsb (fun x => i_pgid x =? pg) (n_inodes n) = true)
      by (apply existsb_exists; exists x; split; [exact Hx | now apply N.eqb_eq]).
    rewrite L, X in E3. discriminate.
Qed.

Theorem write_never_out_of_fuel n pg ov : write n pg ov <> OutOfFuel.
Proof.
  unfold write. cbv zeta.
  destruct (65535 <=? N.of_nat (length (n_inodes n))); [discriminate|].
  destruct (existsb (fun x => len (i_key x) =? 0) (n_inodes n)); [discriminate|].
  destruct (negb (n_leaf n) && existsb (fun x => i_pgid x =? pg) (n_inodes n)); discriminate.
Qed.

(** the number of bytes written is node.size *)
Lemma enc_elems_length leaf l : forall doff, length (enc_elems leaf doff l) = (16 * length l)%nat.
Proof.
  induction l as [|x r IH]; intros doff; [reflexivity|].
  cbn [enc_elems length]. destruct leaf; rewrite !app_length, !enc_le_length, IH; lia.
Qed.

Fixpoint data_total (l : list inode) : N :=
  match l with [] => 0 | x :: r => len (i_key x) + len (i_val x) + data_total r end.

Lemma enc_data_length l : N.of_nat (length (enc_data l)) = data_total l.
Proof.
  unfold enc_data. induction l as [|x r IH]; [reflexivity|].
  cbn [flat_map data_total]. rewrite !app_length, !Nat2N.inj_add, IH. unfold len. lia.
Qed.

Lemma size_of_total leaf l : size_of leaf l = 16 + 16 * N.of_nat (length l) + data_total l.
Proof.
  unfold size_of. change page_header_size with 16.
  assert (G : forall sz, fold_left (fun s i => s + isz leaf i) l sz = sz + 16 * N.of_nat (length l) + data_total l).
  { induction l as [|x r IH]; intros sz; cbn [fold_left length data_total]; [lia|].
    rewrite IH. unfold isz, elsz. change leaf_elem_size with 16. change branch_elem_size with 16.
    destruct leaf; lia. }
  apply G.
Qed.

Theorem write_length n pg ov bytes : write n pg ov = Ok bytes -> N.of_nat (length bytes) = size n.
Proof.
  intros H. apply write_ok_inv in H. subst bytes. unfold size. rewrite size_of_total.
  unfold enc_header. rewrite !app_length, !enc_le_length, enc_elems_length, !Nat2N.inj_add, enc_data_length. lia.
Qed.

(** * T6: write / read round trip through the implementation's own reader *)
Lemma read_leaf_elem_shift rd base i : read_leaf_elem rd base (i + 1) = read_leaf_elem rd (base + 16) i.
Proof.
  unfold read_leaf_elem. cbv zeta. replace (base + 16 + 16 * (i + 1)) with (base + 16 + 16 + 16 * i) by lia. reflexivity.
Qed.
Lemma read_branch_elem_shift rd base i : read_branch_elem rd base (i + 1) = read_branch_elem rd (base + 16) i.
Proof.
  unfold read_branch_elem. cbv zeta. replace (base + 16 + 16 * (i + 1)) with (base + 16 + 16 + 16 * i) by lia. reflexivity.
Qed.

(** element headers at [a], then [mid] (the data of the elements already consumed), then the data of [l] *)
Lemma read_leaf_elems l : forall a doff mid post base,
  N.of_nat (length a) = base + 16 -> N.of_nat (length mid) = doff ->
  16 * N.of_nat (length l) + doff + data_total l < 2^32 ->
  Forall (fun x => i_flags x < 2^32 /\ i_pgid x = 0) l ->
  map (read_leaf_elem (rd_of (a ++ enc_elems true doff l ++ mid ++ enc_data l ++ post)) base) (run_nat 0 (length l)) = l.
Proof.
  induction l as [|x r IH]; intros a doff mid post base Ha Hm Hb Hw; [reflexivity|].
  inversion Hw as [|? ? [Hfl Hpg] Hr]; subst x0 l.
  cbn [length run_nat map]. cbn [data_total length] in Hb.
  set (pos := 16 * N.of_nat (S (length r)) + doff).
  set (doff' := doff + len (i_key x) + len (i_val x)).
  set (hd := enc_le 4 (i_flags x) ++ enc_le 4 pos ++ enc_le 4 (len (i_key x)) ++ enc_le 4 (len (i_val x))).
  set (E' := enc_elems true doff' r).
  set (D' := enc_data r).
  set (L := a ++ enc_elems true doff (x :: r) ++ mid ++ enc_data (x :: r) ++ post).
  assert (EL1 : L = a ++ enc_le 4 (i_flags x) ++ enc_le 4 pos ++ enc_le 4 (len (i_key x)) ++ enc_le 4 (len (i_val x))
                      ++ (E' ++ mid ++ enc_data (x :: r) ++ post)).
  { unfold L. cbn [enc_elems]. fold pos. fold doff'. fold E'. rewrite <- !app_assoc. reflexivity. }
  assert (Lhd : length hd = 16%nat) by (unfold hd; rewrite !app_length, !enc_le_length; reflexivity).
  assert (LE' : length E' = (16 * length r)%nat) by apply enc_elems_length.
  assert (EL2 : L = a ++ (hd ++ E' ++ mid) ++ i_key x ++ (i_val x ++ D' ++ post)).
  { unfold L, hd, enc_data. cbn [enc_elems flat_map]. fold pos. fold doff'. fold E'. fold (enc_data r). fold D'.
    rewrite <- !app_assoc. reflexivity. }
  assert (EL3 : L = a ++ (hd ++ E' ++ mid ++ i_key x) ++ i_val x ++ (D' ++ post)).
  { rewrite EL2. rewrite <- !app_assoc. reflexivity. }
  assert (EL4 : L = (a ++ hd) ++ E' ++ (mid ++ i_key x ++ i_val x) ++ D' ++ post).
  { rewrite EL2. rewrite <- !app_assoc. reflexivity. }
  destruct (four_u32 a (i_flags x) pos (len (i_key x)) (len (i_val x)) (E' ++ mid ++ enc_data (x :: r) ++ post))
    as (U1 & U2 & U3 & U4); try (subst pos; unfold len in *; lia).
  rewrite <- EL1 in U1, U2, U3, U4.
  f_equal.
  - unfold read_leaf_elem. cbv zeta.
    replace (base + 16 + 16 * 0) with (N.of_nat (length a)) by lia.
    rewrite U1, U2, U3, U4.
    assert (K : rbytes (rd_of L) (N.to_nat (len (i_key x))) (N.of_nat (length a) + pos) = i_key x).
    { unfold len. rewrite Nat2N.id. rewrite EL2. apply rbytes_at.
      rewrite !app_length, Lhd, LE'. subst pos. lia. }
    assert (V : rbytes (rd_of L) (N.to_nat (len (i_val x))) (N.of_nat (length a) + pos + len (i_key x)) = i_val x).
    { unfold len at 1. rewrite Nat2N.id. rewrite EL3. rewrite <- N.add_assoc. apply rbytes_at.
      rewrite !app_length, Lhd, LE'. subst pos. unfold len. lia. }
    rewrite K, V. destruct x as [fl k v pgid]. cbn in *. now subst pgid.
  - rewrite map_run_nat_succ.
    etransitivity; [apply map_ext; intros i; apply read_leaf_elem_shift|].
    rewrite EL4. apply IH.
    + rewrite app_length, Lhd. lia.
    + rewrite !app_length. subst doff'. unfold len. lia.
    + subst doff'. lia.
    + exact Hr.
Qed.

Lemma read_branch_elems l : forall a doff mid post base,
  N.of_nat (length a) = base + 16 -> N.of_nat (length mid) = doff ->
  16 * N.of_nat (length l) + doff + data_total l < 2^32 ->
  Forall (fun x => i_pgid x < 2^64 /\ i_flags x = 0 /\ i_val x = []) l ->
  map (read_branch_elem (rd_of (a ++ enc_elems false doff l ++ mid ++ enc_data l ++ post)) base) (run_nat 0 (length l)) = l.
Proof.
  induction l as [|x r IH]; intros a doff mid post base Ha Hm Hb Hw; [reflexivity|].
  inversion Hw as [|? ? (Hpg & Hfl & Hv) Hr]; subst x0 l.
  cbn [length run_nat map]. cbn [data_total length] in Hb.
  set (pos := 16 * N.of_nat (S (length r)) + doff).
  set (doff' := doff + len (i_key x) + len (i_val x)).
  set (hd := enc_le 4 pos ++ enc_le 4 (len (i_key x)) ++ enc_le 8 (i_pgid x)).
  set (E' := enc_elems false doff' r).
  set (D' := enc_data r).
  set (L := a ++ enc_elems false doff (x :: r) ++ mid ++ enc_data (x :: r) ++ post).
  assert (EL1 : L = a ++ enc_le 4 pos ++ enc_le 4 (len (i_key x)) ++ enc_le 8 (i_pgid x)
                      ++ (E' ++ mid ++ enc_data (x :: r) ++ post)).
  { unfold L. cbn [enc_elems]. fold pos. fold doff'. fold E'. rewrite <- !app_assoc. reflexivity. }
  assert (Lhd : length hd = 16%nat) by (unfold hd; rewrite !app_length, !enc_le_length; reflexivity).
  assert (LE' : length E' = (16 * length r)%nat) by apply enc_elems_length.
  assert (EL2 : L = a ++ (hd ++ E' ++ mid) ++ i_key x ++ (i_val x ++ D' ++ post)).
  { unfold L, hd, enc_data. cbn [enc_elems flat_map]. fold pos. fold doff'. fold E'. fold (enc_data r). fold D'.
    rewrite <- !app_assoc. reflexivity. }
  assert (EL4 : L = (a ++ hd) ++ E' ++ (mid ++ i_key x ++ i_val x) ++ D' ++ post).
  { rewrite EL2. rewrite <- !app_assoc. reflexivity. }
  destruct (u32_u32_u64 a pos (len (i_key x)) (i_pgid x) (E' ++ mid ++ enc_data (x :: r) ++ post))
    as (U1 & U2 & U3); try (subst pos; unfold len in *; lia).
  rewrite <- EL1 in U1, U2, U3.
  f_equal.
  - unfold read_branch_elem. cbv zeta.
    replace (base + 16 + 16 * 0) with (N.of_nat (length a)) by lia.
    rewrite U1, U2, U3.
    assert (K : rbytes (rd_of L) (N.to_nat (len (i_key x))) (N.of_nat (length a) + pos) = i_key x).
    { unfold len. rewrite Nat2N.id. rewrite EL2. apply rbytes_at.
      rewrite !app_length, Lhd, LE'. subst pos. lia. }
    rewrite K. destruct x as [fl k v pgid]. cbn in *. now subst fl v.
  - rewrite map_run_nat_succ.
    etransitivity; [apply map_ext; intros i; apply read_branch_elem_shift|].
    rewrite EL4. apply IH.
    + rewrite app_length, Lhd. lia.
    + rewrite !app_length. subst doff'. unfold len. lia.
    + subst doff'. lia.
    + exact Hr.
Qed.

(** the hypotheses of the round trip.  [size n < 2^32] is an EXTRA hypothesis: the element header stores the distance to
    the key in a uint32 ([pos]); the per-field bounds asked for (every key and value shorter than 2^32, fewer than 65535
    elements) do not bound it - two values of 2^31 bytes each already push the second [pos] past 2^32, where
    [enc_le 4] (like Go's uint32 conversion) truncates and the reader looks in the wrong place: see
    [roundtrip_needs_size_bound] below for the checked counterexample. *)
Definition node_wf (n : node) : Prop :=
  Forall (fun x => 0 < len (i_key x) < 2^32 /\ len (i_val x) < 2^32 /\ i_flags x < 2^32 /\ i_pgid x < 2^64) (n_inodes n) /\
  (if n_leaf n then Forall (fun x => i_pgid x = 0) (n_inodes n)
   else Forall (fun x => i_flags x = 0 /\ i_val x = []) (n_inodes n)).

Theorem write_read_roundtrip n pg ov pre post bytes :
  node_wf n -> pg < 2^64 -> ov < 2^32 -> N.of_nat (length (n_inodes n)) < 65535 ->
  size n < 2^32 ->
  write n pg ov = Ok bytes ->
  read (rd_of (pre ++ bytes ++ post)) (N.of_nat (length pre)) =
  Ok {| n_leaf := n_leaf n; n_unbal := false; n_inodes := n_inodes n |}.
Proof.
  intros [Hw Hk] Hpg Hov Hc Hsz H. apply write_ok_inv in H.
  unfold size in Hsz. rewrite size_of_total in Hsz.
  set (l := n_inodes n) in *. set (c := N.of_nat (length l)) in *.
  set (fl := if n_leaf n then leaf_page_flag else branch_page_flag) in *.
  set (hdr := enc_page_header pg fl c ov).
  change (enc_header pg fl c ov) with hdr in H.
  set (b := N.of_nat (length pre)).
  set (rd := rd_of (pre ++ bytes ++ post)).
  assert (EL : pre ++ bytes ++ post = pre ++ hdr ++ (enc_elems (n_leaf n) 0 l ++ enc_data l ++ post)).
  { rewrite H, <- !app_assoc. reflexivity. }
  assert (Hfl : u16 rd (b + 8) = fl).
  { unfold rd. rewrite EL. apply header_flags. unfold fl. destruct (n_leaf n); reflexivity. }
  assert (Hcnt : u16 rd (b + 10) = c) by (unfold rd; rewrite EL; apply header_count; lia).
  assert (Lh : N.of_nat (length (pre ++ hdr)) = b + 16).
  { unfold hdr. rewrite app_length, enc_page_header_length. unfold b. lia. }
  assert (EL' : pre ++ bytes ++ post = (pre ++ hdr) ++ enc_elems (n_leaf n) 0 l ++ [] ++ enc_data l ++ post).
  { rewrite EL, <- !app_assoc. reflexivity. }
  assert (Hnz : existsb (fun x => len (i_key x) =? 0) l = false).
  { clear -Hw. induction Hw as [|x r (Hx & _) _ IH]; [reflexivity|]. cbn [existsb]. rewrite IH, orb_false_r.
    apply N.eqb_neq. lia. }
  unfold read. cbv zeta. fold b. fold rd. rewrite Hfl, Hcnt.
  change (run 0 c) with (idxs c). unfold c at 1 2. rewrite idxs_of_nat.
  destruct (n_leaf n) eqn:Leaf.
  - change (fl =? leaf_page_flag) with true. cbv iota.
    assert (R : map (fun i => read_leaf_elem rd b i) (run_nat 0 (length l)) = l).
    { unfold rd. rewrite EL'. apply read_leaf_elems; [exact Lh | reflexivity | fold c; lia |].
      clear -Hw Hk. induction Hw as [|x r Hx _ IH]; [constructor|].
      inversion Hk; subst. constructor; [split; [tauto | assumption] | apply IH; assumption]. }
    rewrite R, Hnz. reflexivity.
  - change (fl =? leaf_page_flag) with false. cbv iota.
    assert (R : map (fun i => read_branch_elem rd b i) (run_nat 0 (length l)) = l).
    { unfold rd. rewrite EL'. apply read_branch_elems; [exact Lh | reflexivity | fold c; lia |].
      clear -Hw Hk. induction Hw as [|x r Hx _ IH]; [constructor|].
      inversion Hk; subst. constructor; [tauto | apply IH; assumption]. }
    rewrite R, Hnz. reflexivity.
Qed.

(** ** the round trip asked for WITHOUT [size n < 2^32] is false: a kernel-checked counterexample.
    A leaf with two elements, the first carrying a value of 2^32 - 1 bytes: every per-field bound holds, [write]
    succeeds, but the second element's [pos] is 16 + 2^32, stored as 16, so [read] returns the FIRST key for the
    second element.  ([m] stays abstract in the computation, so nothing of size 2^32 is ever built.) *)
Definition cex_node (m : nat) : node :=
  {| n_leaf := true; n_unbal := false;
     n_inodes := [ {| i_flags := 0; i_key := [1]; i_val := repeat 0 m; i_pgid := 0 |};
                   {| i_flags := 0; i_key := [2]; i_val := []; i_pgid := 0 |} ] |}.

Lemma cex_bytes m : N.of_nat m = 2^32 - 1 ->
  write (cex_node m) 3 0 =
  Ok ([3;0;0;0;0;0;0;0; 2;0; 2;0; 0;0;0;0;
       0;0;0;0; 32;0;0;0; 1;0;0;0; 255;255;255;255;
       0;0;0;0; 16;0;0;0; 1;0;0;0; 0;0;0;0] ++ 1 :: repeat 0 m ++ [2]).
Proof.
  intros Hm. unfold write, cex_node. cbn [n_inodes n_leaf length existsb i_key i_pgid negb andb orb].
  change (65535 <=? N.of_nat 2) with false. change (len [1] =? 0) with false. change (len [2] =? 0) with false.
  cbn [orb]. cbv iota. f_equal.
  unfold enc_header, enc_data. cbn [enc_elems flat_map i_flags i_key i_val length app].
  unfold len. cbn [length]. rewrite repeat_length, Hm.
  vm_compute. reflexivity.
Qed.

Lemma cex_read_fails m bytes : N.of_nat m = 2^32 - 1 -> write (cex_node m) 3 0 = Ok bytes ->
  read (rd_of bytes) 0 <> Ok (cex_node m).
Proof.
  intros Hm W. rewrite (cex_bytes m Hm) in W. injection W as <-.
  match goal with |- read (rd_of ?L) 0 <> _ => set (rd := rd_of L) end.
  assert (F : u16 rd (0 + 8) = 2) by (vm_compute; reflexivity).
  assert (C : u16 rd (0 + 10) = 2) by (vm_compute; reflexivity).
  assert (K : i_key (read_leaf_elem rd 0 1) = [1]) by (vm_compute; reflexivity).
  unfold read. cbv zeta. rewrite F, C. change (2 =? leaf_page_flag) with true. cbv iota.
  change (run 0 2) with [0; 1]. cbn [map].
  match goal with |- (if ?b then _ else _) <> _ => destruct b end; [discriminate|].
  intros R. apply (f_equal (fun r => match r with Ok n => map i_key (n_inodes n) | _ => [] end)) in R.
  cbn [n_inodes cex_node map] in R. apply (f_equal (fun l => nth 1 l [])) in R. cbn [nth] in R. rewrite K in R. discriminate.
Qed.

Theorem roundtrip_needs_size_bound :
  exists n pg ov bytes,
    (Forall (fun x => 0 < len (i_key x) < 2^32 /\ len (i_val x) < 2^32 /\ i_flags x < 2^32 /\ i_pgid x < 2^64) (n_inodes n) /\
     n_leaf n = true /\ Forall (fun x => i_pgid x = 0) (n_inodes n)) /\
    pg < 2^64 /\ ov < 2^32 /\ N.of_nat (length (n_inodes n)) < 65535 /\
    write n pg ov = Ok bytes /\
    read (rd_of ([] ++ bytes ++ [])) (N.of_nat (length (@nil N))) <> Ok {| n_leaf := n_leaf n; n_unbal := false; n_inodes := n_inodes n |}.
Proof.
  assert (exists m, N.of_nat m = 2^32 - 1) as [m Hm] by (exists (N.to_nat (2^32 - 1)); apply N2Nat.id).
  exists (cex_node m), 3, 0. eexists.
  split; [|split; [reflexivity | split; [reflexivity | split; [reflexivity | split; [apply (cex_bytes m Hm)|]]]]].
  - split; [|split; [reflexivity | repeat constructor]].
    constructor; [|repeat constructor].
    cbn [i_key i_val i_flags i_pgid]. unfold len. rewrite repeat_length, Hm. repeat split.
  - cbn [app length N.of_nat]. rewrite app_nil_r. apply (cex_read_fails m _ Hm). apply (cex_bytes m Hm).
Qed.

(** the truncation behind the extra hypothesis of [write_read_roundtrip]: the stored [pos] of an element that follows
    2^32 bytes of key/value data is byte-for-byte the one of an element that follows none *)
Example pos_field_truncates : enc_le 4 (16 * 1 + 2^32) = enc_le 4 (16 * 1 + 0).
Proof. vm_compute. reflexivity. Qed.

(** * the hypotheses are satisfiable: a 7-element leaf with 300-byte values *)
Definition ex_inode (k : N) : inode := {| i_flags := 0; i_key := [k]; i_val := repeat k 300; i_pgid := 0 |}.
Definition ex_node : node := {| n_leaf := true; n_unbal := false; n_inodes := map ex_inode [1; 2; 3; 5; 6; 7; 8] |}.
Definition ex_branch : node :=
  {| n_leaf := false; n_unbal := false;
     n_inodes := map (fun k => {| i_flags := 0; i_key := [k; k]; i_val := []; i_pgid := 10 + k |}) [1; 2; 3; 5; 6] |}.

Example ex_sorted : keys_sorted (keys_of (n_inodes ex_node)) = true.
Proof. vm_compute. reflexivity. Qed.
Example ex_search_absent : search 7 (key_ge (n_inodes ex_node) [4]) = 3%nat.       (* Go: sort.Search *)
Proof. vm_compute. reflexivity. Qed.
Example ex_search_present : search 7 (key_ge (n_inodes ex_node) [5]) = 3%nat.
Proof. vm_compute. reflexivity. Qed.
Example ex_search_past_end : search 7 (key_ge (n_inodes ex_node) [9]) = 7%nat.
Proof. vm_compute. reflexivity. Qed.
Example ex_put_new : match put 100 ex_node [4] [4] [42] 0 0 with
                     | Ok n' => keys_of (n_inodes n') = [[1]; [2]; [3]; [4]; [5]; [6]; [7]; [8]] | _ => False end.
Proof. vm_compute. reflexivity. Qed.
Example ex_put_replace : match put 100 ex_node [5] [5] [42] 0 0 with
                         | Ok n' => keys_of (n_inodes n') = keys_of (n_inodes ex_node)
                                    /\ ilookup [5] (n_inodes n') = Some {| i_flags := 0; i_key := [5]; i_val := [42]; i_pgid := 0 |}
                         | _ => False end.
Proof. vm_compute. split; reflexivity. Qed.
Example ex_del : keys_of (n_inodes (del ex_node [5])) = [[1]; [2]; [3]; [6]; [7]; [8]] /\ n_unbal (del ex_node [5]) = true
                 /\ del ex_node [4] = ex_node.
Proof. vm_compute. repeat split; reflexivity. Qed.
Example ex_size : size ex_node = 2235 /\ size_less_than ex_node 2235 = false /\ size_less_than ex_node 2236 = true.
Proof. vm_compute. repeat split; reflexivity. Qed.
(** page size 1024: three pieces at the default fill percentage, two at 100 percent *)
Example ex_split_3 : match split ex_node 1024 50 with
                     | Ok pieces => map (@length inode) pieces = [2; 2; 3]%nat /\ split_ok (n_inodes ex_node) pieces = true
                     | _ => False end.
Proof. vm_compute. split; reflexivity. Qed.
Example ex_split_2 : match split ex_node 1024 100 with
                     | Ok pieces => map (@length inode) pieces = [3; 4]%nat /\ split_ok (n_inodes ex_node) pieces = true
                     | _ => False end.
Proof. vm_compute. split; reflexivity. Qed.
Example ex_split_none : split ex_node 4096 50 = Ok [n_inodes ex_node].
Proof. vm_compute. reflexivity. Qed.

Example ex_wf : node_wf ex_node /\ node_wf ex_branch.
Proof. split; (split; [|cbn [n_leaf ex_node ex_branch]]); repeat constructor. Qed.
Example ex_write_leaf : write ex_node 3 0 = Ok (enc_leaf_page_ov 3 0 (map (fun x => (i_key x, i_val x)) (n_inodes ex_node))).
Proof. vm_compute. reflexivity. Qed.
Example ex_write_branch : write ex_branch 4 1 = Ok (enc_branch_page 4 1 (map (fun x => (i_key x, i_pgid x)) (n_inodes ex_branch))).
Proof. vm_compute. reflexivity. Qed.
Example ex_write_panics : write ex_branch 13 0 = Panic.      (* element 3 points at page 13 itself *)
Proof. vm_compute. reflexivity. Qed.
Example ex_roundtrip_leaf : match write ex_node 3 0 with
                            | Ok bytes => read (rd_of ([9; 9; 9] ++ bytes ++ [7; 7])) 3 = Ok ex_node | _ => False end.
Proof. vm_compute. reflexivity. Qed.
Example ex_roundtrip_branch : match write ex_branch 4 1 with
                              | Ok bytes => read (rd_of ([9; 9; 9] ++ bytes ++ [7; 7])) 3 = Ok ex_branch | _ => False end.
Proof. vm_compute. reflexivity. Qed.

Print Assumptions search_spec.
Print Assumptions search_least.
Print Assumptions search_sorted.
Print Assumptions put_is_insert.
Print Assumptions ins_sorted.
Print Assumptions ins_lookup_same.
Print Assumptions ins_lookup_other.
Print Assumptions del_is_remove.
Print Assumptions rem_sorted.
Print Assumptions rem_lookup_same.
Print Assumptions rem_lookup_other.
Print Assumptions del_unbalanced_iff.
Print Assumptions put_panics_iff.
Print Assumptions put_never_out_of_fuel.
Print Assumptions size_less_than_spec.
Print Assumptions split_total.
Print Assumptions split_concat.
Print Assumptions split_nonempty.
Print Assumptions split_nonlast_ge2.
Print Assumptions split_all_ge2.
Print Assumptions split_last_ge2.
Print Assumptions split_last_ge3.
Print Assumptions split_fits.
Print Assumptions split_small.
Print Assumptions split_ok_model.
Print Assumptions split_ok_sound.
Print Assumptions write_leaf_is_spec.
Print Assumptions write_branch_is_spec.
Print Assumptions write_panics_iff.
Print Assumptions write_never_out_of_fuel.
Print Assumptions write_length.
Print Assumptions write_read_roundtrip.
Print Assumptions roundtrip_needs_size_bound.
