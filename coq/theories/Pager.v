(** Pager ("PTS"): the page-level transaction system - which page ids are free, pending, part of the newest
    committed version, part of a version an open reader views, or being written by the open writer.
    The B+tree layer appears only through its decisions (which pages a transaction frees and allocates): they are
    labels of the transition function, guarded by what the code can actually do (tree_ok); the harness feeds the
    observed freelist events of the real code as labels, so the guards are monitored on every real commit and the
    state is compared with the real freelist after every step.  Definitions only. *)
From Bbolt Require Import Base.

Record wtx := { w_id : N; w_mark : N; w_freed : list N; w_alloc : list N }.

Record pg := {
  g_free : list N;                    (* reusable page ids *)
  g_pend : list (N * N * N);          (* (txid that freed it, page id, txid that allocated it or 0) *)
  g_cur : N;                          (* txid of the newest committed meta *)
  g_mark : N;                         (* its high-water mark *)
  g_pages : list N;                   (* page ids of the newest committed version: tree, overflow and freelist pages *)
  g_hist : list (N * list N);         (* ghost: every committed version (txid, its page ids) *)
  g_readers : list N;                 (* txids of the open read transactions *)
  g_atx : list (N * N);               (* page -> txid that took it from the free list *)
  g_w : option wtx                    (* the open write transaction *)
}.

Definition e_tx (e : N * N * N) : N := fst (fst e).
Definition e_pg (e : N * N * N) : N := snd (fst e).
Definition e_atx (e : N * N * N) : N := snd e.
Definition pend_pages (s : pg) : list N := map e_pg (g_pend s).

Fixpoint lookupN (k : N) (l : list (N * N)) : N :=
  match l with [] => 0 | (k', v) :: r => if k =? k' then v else lookupN k r end.
Definition removeK (k : N) (l : list (N * N)) : list (N * N) := filter (fun e => negb (fst e =? k)) l.
Fixpoint remove1 (x : N) (l : list N) : list N :=
  match l with [] => [] | y :: r => if x =? y then r else y :: remove1 x r end.
Definition minus (l rm : list N) : list N := filter (fun x => negb (memN x rm)) l.

(** a pending page (t, p, a) may become reusable iff no open reader r has a <= r < t *)
Definition seen_by (e : N * N * N) (r : N) : bool := (e_atx e <=? r) && (r <? e_tx e).
Definition releasable (readers : list N) (e : N * N * N) : bool := negb (existsb (seen_by e) readers).

Inductive label :=
| LBeginR | LEndR (r : N)
| LBeginW (rel : list N)              (* page ids ReleasePendingPages moved to the free list *)
| LFree (p : N)                       (* tree layer: one page id of the base version is freed *)
| LAlloc (p : N)                      (* one page id handed to the writer: from the free list, or the mark *)
| LCommit | LRollback.

Definition upd_w (s : pg) (w : option wtx) : pg :=
  {| g_free := g_free s; g_pend := g_pend s; g_cur := g_cur s; g_mark := g_mark s; g_pages := g_pages s;
     g_hist := g_hist s; g_readers := g_readers s; g_atx := g_atx s; g_w := w |}.

Definition pstep (s : pg) (l : label) : option pg :=
  match l with
  | LBeginR =>
      Some {| g_free := g_free s; g_pend := g_pend s; g_cur := g_cur s; g_mark := g_mark s; g_pages := g_pages s;
              g_hist := g_hist s; g_readers := g_cur s :: g_readers s; g_atx := g_atx s; g_w := g_w s |}
  | LEndR r =>
      if memN r (g_readers s) then
        Some {| g_free := g_free s; g_pend := g_pend s; g_cur := g_cur s; g_mark := g_mark s; g_pages := g_pages s;
                g_hist := g_hist s; g_readers := remove1 r (g_readers s); g_atx := g_atx s; g_w := g_w s |}
      else None
  | LBeginW rel =>
      match g_w s with Some _ => None | None =>
      if forallb (fun e => negb (memN (e_pg e) rel) || releasable (g_readers s) e) (g_pend s)
         && forallb (fun p => memN p (pend_pages s)) rel
      then Some {| g_free := g_free s ++ rel;
                   g_pend := filter (fun e => negb (memN (e_pg e) rel)) (g_pend s);
                   g_cur := g_cur s; g_mark := g_mark s; g_pages := g_pages s; g_hist := g_hist s;
                   g_readers := g_readers s; g_atx := g_atx s;
                   g_w := Some {| w_id := g_cur s + 1; w_mark := g_mark s; w_freed := []; w_alloc := [] |} |}
      else None end
  | LFree p =>
      match g_w s with None => None | Some w =>
      if memN p (g_pages s) && negb (memN p (w_freed w))
      then Some {| g_free := g_free s; g_pend := g_pend s ++ [(w_id w, p, lookupN p (g_atx s))];
                   g_cur := g_cur s; g_mark := g_mark s; g_pages := g_pages s; g_hist := g_hist s;
                   g_readers := g_readers s; g_atx := removeK p (g_atx s);
                   g_w := Some {| w_id := w_id w; w_mark := w_mark w; w_freed := p :: w_freed w; w_alloc := w_alloc w |} |}
      else None end
  | LAlloc p =>
      match g_w s with None => None | Some w =>
      if memN p (g_free s)
      then Some {| g_free := minus (g_free s) [p]; g_pend := g_pend s; g_cur := g_cur s; g_mark := g_mark s;
                   g_pages := g_pages s; g_hist := g_hist s; g_readers := g_readers s;
                   g_atx := (p, w_id w) :: removeK p (g_atx s);
                   g_w := Some {| w_id := w_id w; w_mark := w_mark w; w_freed := w_freed w; w_alloc := p :: w_alloc w |} |}
      else if p =? w_mark w
      then Some (upd_w s (Some {| w_id := w_id w; w_mark := w_mark w + 1; w_freed := w_freed w; w_alloc := p :: w_alloc w |}))
      else None end
  | LCommit =>
      match g_w s with None => None | Some w =>
      let pages' := minus (g_pages s) (w_freed w) ++ w_alloc w in
      Some {| g_free := g_free s; g_pend := g_pend s; g_cur := w_id w; g_mark := w_mark w; g_pages := pages';
              g_hist := (w_id w, pages') :: g_hist s; g_readers := g_readers s; g_atx := g_atx s; g_w := None |} end
  | LRollback =>
      match g_w s with None => None | Some w =>
      let undone := filter (fun e => e_tx e =? w_id w) (g_pend s) in
      let atx1 := fold_left (fun al e => if e_atx e =? 0 then al else (e_pg e, e_atx e) :: removeK (e_pg e) al) undone (g_atx s) in
      Some {| g_free := g_free s ++ filter (fun p => p <? g_mark s) (w_alloc w);
              g_pend := filter (fun e => negb (e_tx e =? w_id w)) (g_pend s);
              g_cur := g_cur s; g_mark := g_mark s; g_pages := g_pages s; g_hist := g_hist s;
              g_readers := g_readers s; g_atx := filter (fun e => negb (snd e =? w_id w)) atx1; g_w := None |} end
  end.

Fixpoint prun (s : pg) (ls : list label) : option pg :=
  match ls with [] => Some s | l :: r => match pstep s l with Some s' => prun s' r | None => None end end.

(** a freshly initialised / reopened database at rest: version [cur] with pages [pages], everything else below
    the mark free; no readers, no pending pages (they became free when the file was closed: nobody can view them) *)
Definition pg_open (cur mark : N) (pages free : list N) : pg :=
  {| g_free := free; g_pend := []; g_cur := cur; g_mark := mark; g_pages := pages; g_hist := [(cur, pages)];
     g_readers := []; g_atx := []; g_w := None |}.

(** the page ids a commit writes (every allocated page is written, nothing else but the meta page) *)
Definition commit_writes (s : pg) : list N := match g_w s with Some w => w_alloc w | None => [] end.

(** the free list rebuilt by scanning: every id in [2, mark) not reachable from the newest meta *)
Definition scan_free (s : pg) : list N := minus (run 2 (g_mark s - 2)) (g_pages s).
