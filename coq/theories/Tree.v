(** Tree: what Tx.Commit does to the node tree of ONE bucket - node.rebalance for every visited materialised node
    (merge with a sibling, removal of emptied nodes, root collapse, recursion to the parent) followed by node.spill
    (children first, split by fill percentage, free the old page, allocate, update the parent, new roots on root
    splits) - as a function on a tree whose vertices are pages and materialised nodes.
    Inputs that are not determined by the tree: the page size, the fill percentage and the ORDER in which
    Bucket.rebalance's map iteration visits the materialised nodes (observed through a verif hook; the theorems
    quantify over every order).  Outputs: the tree of pages the commit leaves and the freelist events
    (Free(pgid, overflow) / Allocate(n)) in the order node.go issues them.
    The model keeps the children of a branch vertex aligned with its inodes; where the Go code finds a child by
    key (childIndex, parent.del(n.key), parent.put(n.key, ..)) the model checks that the key search lands on that
    position and answers [Panic] otherwise (an inconsistent tree: never observed, reported if it is).
    Definitions only. *)
From Bbolt Require Import Base Consts Spec Node.

Record nhdr := { h_mat : bool;        (* a materialised node (in Bucket.nodes); false = a page *)
                 h_unbal : bool;      (* node.unbalanced *)
                 h_pgid : N;          (* page id; 0 = new *)
                 h_ov : N;            (* overflow of that page *)
                 h_key : bytes;       (* node.key *)
                 h_leaf : bool }.
Inductive nt := NT (h : nhdr) (inodes : list inode) (kids : list nt).

Definition hd_of (t : nt) : nhdr := match t with NT h _ _ => h end.
Definition ins_of (t : nt) : list inode := match t with NT _ i _ => i end.
Definition kids_of (t : nt) : list nt := match t with NT _ _ k => k end.
Definition as_node (t : nt) : node := {| n_leaf := h_leaf (hd_of t); n_unbal := h_unbal (hd_of t); n_inodes := ins_of t |}.
Definition first_key (l : list inode) : bytes := match l with [] => [] | i :: _ => i_key i end.

Inductive ev := EvFree (pgid ov : N) | EvAlloc (npages : N).

Definition set_unbal (b : bool) (t : nt) : nt :=
  match t with NT h i k => NT {| h_mat := h_mat h; h_unbal := b; h_pgid := h_pgid h; h_ov := h_ov h; h_key := h_key h; h_leaf := h_leaf h |} i k end.

(** Bucket.node(pgid, parent): read the page into a node (node.read sets key = first key) *)
Definition materialize (t : nt) : nt :=
  match t with NT h i k =>
    if h_mat h then t
    else NT {| h_mat := true; h_unbal := false; h_pgid := h_pgid h; h_ov := h_ov h; h_key := first_key i; h_leaf := h_leaf h |} i k
  end.

(** node.free *)
Definition free_ev (t : nt) : list ev := if h_pgid (hd_of t) =? 0 then [] else [EvFree (h_pgid (hd_of t)) (h_ov (hd_of t))].

Fixpoint remove_nth {A} (n : nat) (l : list A) : list A :=
  match n, l with O, _ :: r => r | S n', x :: r => x :: remove_nth n' r | _, [] => [] end.
Fixpoint replace_nth {A} (n : nat) (x : A) (l : list A) : list A :=
  match n, l with O, _ :: r => x :: r | S n', y :: r => y :: replace_nth n' x r | _, [] => [] end.

(** position of the inode with exactly this key according to the Go search, if it is where the model expects it *)
Definition index_of_key (l : list inode) (k : bytes) : option nat :=
  let idx := search (length l) (key_ge l k) in
  match nth_error l idx with Some i => if beq (i_key i) k then Some idx else None | None => None end.

Section Commit.
  Variable ps : N.      (* page size *)
  Variable fill : N.    (* Bucket.FillPercent * 100 *)

  (** node.rebalance for the child at position [i] of [p].  Result: the new parent, the freelist events and
      whether parent.rebalance() is called next. *)
  Definition rebalance_in_parent (p : nt) (i : nat) : res (nt * list ev * bool) :=
    match p with NT ph pins pkids =>
    match nth_error pkids i with None => Panic | Some n =>
    if negb (h_unbal (hd_of n)) then Ok (p, [], false) else
    let n1 := set_unbal false n in
    if big_enough (as_node n1) ps fill then Ok (NT ph pins (replace_nth i n1 pkids), [], false) else
    let ph' := {| h_mat := h_mat ph; h_unbal := true; h_pgid := h_pgid ph; h_ov := h_ov ph; h_key := h_key ph; h_leaf := h_leaf ph |} in
    match ins_of n1 with
    | [] =>
        (* no keys: remove it from the parent *)
        match index_of_key pins (h_key (hd_of n1)) with
        | Some idx => if Nat.eqb idx i
                      then Ok (NT ph' (remove_nth i pins) (remove_nth i pkids), free_ev n1, true)
                      else Panic
        | None => Panic
        end
    | _ :: _ =>
        if (length pins <=? 1)%nat then Panic else       (* "parent must have at least 2 children" *)
        let idx := search (length pins) (key_ge pins (h_key (hd_of n1))) in      (* parent.childIndex(n) *)
        if negb (Nat.eqb idx i) then Panic else
        let lp := if Nat.eqb i 0 then 0%nat else (i - 1)%nat in
        let rp := S lp in
        match nth_error (replace_nth i n1 pkids) lp, nth_error (replace_nth i n1 pkids) rp with
        | Some l0, Some r0 =>
            let l1 := materialize l0 in let r1 := materialize r0 in
            let merged := NT (hd_of l1) (ins_of l1 ++ ins_of r1) (kids_of l1 ++ kids_of r1) in
            match index_of_key pins (h_key (hd_of r1)) with
            | Some ridx => if Nat.eqb ridx rp
                           then Ok (NT ph' (remove_nth rp pins) (remove_nth rp (replace_nth lp merged (replace_nth i n1 pkids))),
                                    free_ev r1, true)
                           else Panic
            | None => Panic
            end
        | _, _ => Panic
        end
    end end end.

  (** node.rebalance on the root node *)
  Definition rebalance_root (t : nt) : nt * list ev :=
    if negb (h_unbal (hd_of t)) then (t, []) else
    let t1 := set_unbal false t in
    if big_enough (as_node t1) ps fill then (t1, []) else
    match t1 with NT h ins kids =>
      match h_leaf h, ins, kids with
      | false, [_], [c0] =>
          let c := materialize c0 in
          (NT {| h_mat := h_mat h; h_unbal := false; h_pgid := h_pgid h; h_ov := h_ov h; h_key := h_key h; h_leaf := h_leaf (hd_of c) |}
              (ins_of c) (kids_of c), free_ev c)
      | _, _, _ => (t1, [])
      end
    end.

  Fixpoint get_at (t : nt) (path : list nat) : option nt :=
    match path with [] => Some t | i :: r => match nth_error (kids_of t) i with Some c => get_at c r | None => None end end.
  Fixpoint set_at (t : nt) (path : list nat) (x : nt) : nt :=
    match path with
    | [] => x
    | i :: r => match t with NT h ins kids =>
                  match nth_error kids i with Some c => NT h ins (replace_nth i (set_at c r x) kids) | None => t end end
    end.

  (** n.rebalance() for the node at [path], then the recursion to the parents *)
  Fixpoint rebalance_at (fuel : nat) (t : nt) (path : list nat) : res (nt * list ev) :=
    match fuel with O => OutOfFuel | S f =>
      match path with
      | [] => Ok (rebalance_root t)
      | _ :: _ =>
          let ppath := removelast path in
          let i := last path 0%nat in
          match get_at t ppath with None => Panic | Some p =>
            let? r := rebalance_in_parent p i in
            let '(p', evs, cont) := r in
            let t' := set_at t ppath p' in
            if cont then let? r2 := rebalance_at f t' ppath in Ok (fst r2, evs ++ snd r2) else Ok (t', evs)
          end
      end
    end.

  (** the path of the materialised node that was read from page [pgid] (Bucket.nodes[pgid]) *)
  Fixpoint find_node (fuel : nat) (t : nt) (pgid : N) : option (list nat) :=
    match fuel with O => None | S f =>
      if h_mat (hd_of t) && (h_pgid (hd_of t) =? pgid) then Some [] else
      (fix go (i : nat) (ks : list nt) : option (list nat) :=
         match ks with [] => None | c :: r =>
           match (if h_mat (hd_of c) then find_node f c pgid else None) with Some p => Some (i :: p) | None => go (S i) r end end) 0%nat (kids_of t)
    end.

  (** Bucket.rebalance: the visits in the observed order; a node that is no longer in the tree is not visited *)
  Fixpoint rebalance_all (fuel : nat) (t : nt) (order : list N) : res (nt * list ev) :=
    match order with
    | [] => Ok (t, [])
    | pg :: rest =>
        match find_node fuel t pg with
        | None => rebalance_all fuel t rest
        | Some path => let? r := rebalance_at fuel t path in
                       let? r2 := rebalance_all fuel (fst r) rest in Ok (fst r2, snd r ++ snd r2)
        end
    end.

  (** ---- spill ---- *)
  Definition page_hdr (leaf : bool) (l : list inode) : nhdr :=
    {| h_mat := false; h_unbal := false; h_pgid := 0; h_ov := pages_needed leaf ps l - 1; h_key := first_key l; h_leaf := leaf |}.

  (** cut [kids] the way [pieces] cut the inodes *)
  Fixpoint cut_like {A} (pieces : list (list inode)) (kids : list A) : list (list A) :=
    match pieces with [] => [] | p :: r => firstn (length p) kids :: cut_like r (skipn (length p) kids) end.

  (** split + write of one node whose children are already spilled: the pages it becomes, and the events *)
  Definition spill_self (h : nhdr) (ins : list inode) (kids : list nt) : res (list nt * list ev) :=
    let? pieces := split {| n_leaf := h_leaf h; n_unbal := false; n_inodes := ins |} ps fill in
    let kidss := if h_leaf h then map (fun _ => []) pieces else cut_like pieces kids in
    Ok (map (fun pk => NT (page_hdr (h_leaf h) (fst pk)) (fst pk) (snd pk)) (combine pieces kidss),
        (if h_pgid h =? 0 then [] else [EvFree (h_pgid h) (h_ov h)])
        ++ map (fun p => EvAlloc (pages_needed (h_leaf h) ps p)) pieces).

  (** node.spill for a non-root vertex: pages are left alone; a materialised node spills its materialised children
      (each is replaced, in the parent, by the pages it became), then itself *)
  Fixpoint spill (fuel : nat) (t : nt) : res (list nt * list ev) :=
    match fuel with O => OutOfFuel | S f =>
      match t with NT h ins kids =>
        if negb (h_mat h) then Ok ([t], []) else
        let? r := (fix go (ins : list inode) (kids : list nt) : res (list inode * list nt * list ev) :=
                     match ins, kids with
                     | i :: ir, c :: cr =>
                         let? rest := go ir cr in
                         let '(ri, rk, re) := rest in
                         if h_mat (hd_of c) then
                           match ins_of c with [] => Panic | _ :: _ =>        (* sort.Sort(children) reads inodes[0] *)
                             let? cp := spill f c in
                             Ok (map (fun p => {| i_flags := 0; i_key := first_key (ins_of p); i_val := []; i_pgid := h_pgid (hd_of p) |}) (fst cp) ++ ri,
                                 fst cp ++ rk, snd cp ++ re)
                           end
                         else Ok (i :: ri, c :: rk, re)
                     | [], [] => Ok ([], [], [])
                     | l, [] => if h_leaf h then Ok (l, [], []) else Panic
                     | [], _ :: _ => Panic
                     end) ins kids in
        let '(ins', kids', evs) := r in
        let? s := spill_self h ins' kids' in
        Ok (fst s, evs ++ snd s)
      end
    end.

  (** a root that split gets a new parent, which is spilled in turn (node.spill's tail call) *)
  Fixpoint spill_up (fuel : nat) (pieces : list nt) (evs : list ev) : res (nt * list ev) :=
    match fuel with O => OutOfFuel | S f =>
      match pieces with
      | [] => Panic
      | [one] => Ok (one, evs)
      | _ =>
          let ins := map (fun p => {| i_flags := 0; i_key := first_key (ins_of p); i_val := []; i_pgid := 0 |}) pieces in
          let? s := spill_self {| h_mat := true; h_unbal := false; h_pgid := 0; h_ov := 0; h_key := []; h_leaf := false |} ins pieces in
          spill_up f (fst s) (evs ++ snd s)
      end
    end.

  Definition spill_root (fuel : nat) (t : nt) : res (nt * list ev) :=
    if negb (h_mat (hd_of t)) then Ok (t, []) else
    let? r := spill fuel t in spill_up fuel (fst r) (snd r).

  (** Bucket.inlineable: a single materialised leaf without nested buckets whose size stays within pageSize/4 *)
  Fixpoint inl_loop (sz : N) (l : list inode) : bool :=
    match l with
    | [] => true
    | x :: r => let sz' := sz + leaf_elem_size + len (i_key x) + len (i_val x) in
                if N.odd (i_flags x) then false else if ps / 4 <? sz' then false else inl_loop sz' r
    end.
  Definition inlineable (t : nt) : bool := h_mat (hd_of t) && h_leaf (hd_of t) && inl_loop page_header_size (ins_of t).

  (** Bucket.free: every page and every node of the tree, in forEachPageNode's pre-order *)
  Fixpoint free_all (fuel : nat) (t : nt) : list ev :=
    match fuel with O => [] | S f => free_ev t ++ flat_map (free_all f) (kids_of t) end.

  (** the parent bucket's spill decides per child bucket: small enough -> freed and written inline into the parent's leaf
      (the tree becomes one unpaged leaf), otherwise spilled *)
  Definition commit_bucket (fuel : nat) (t : nt) (order : list N) : res (nt * list ev * bool) :=
    if negb (h_mat (hd_of t)) then Ok (t, [], h_pgid (hd_of t) =? 0) else    (* no materialised root: the bucket is not written *)
    let? r := rebalance_all fuel t order in
    if inlineable (fst r) then
      Ok (NT {| h_mat := false; h_unbal := false; h_pgid := 0; h_ov := 0; h_key := []; h_leaf := true |} (ins_of (fst r)) [],
          snd r ++ (if h_pgid (hd_of (fst r)) =? 0 then [] else free_all fuel (fst r)), true)
    else
      let? s := spill_root fuel (fst r) in Ok (fst s, snd r ++ snd s, false).

  (** Tx.Commit on this bucket's tree: rebalance (visits in [order]), then spill *)
  Definition commit_tree (fuel : nat) (t : nt) (order : list N) : res (nt * list ev) :=
    let? r := rebalance_all fuel t order in
    let? s := spill_root fuel (fst r) in
    Ok (fst s, snd r ++ snd s).
End Commit.

(** ---- Bucket.spill's write-back of a child bucket: Cursor.seek(name) + Cursor.node() materialise the path to the leaf
    that holds the child's entry, then node.put(name, name, value, 0, BucketLeafFlag) ---- *)
(** searchNode / searchPage: the last position whose key is <= the sought key (0 if none) *)
Definition seek_index (l : list inode) (key : bytes) : nat :=
  let idx := search (length l) (key_ge l key) in
  let exact := match nth_error l idx with Some i => beq (i_key i) key | None => false end in
  if negb exact && (0 <? idx)%nat then (idx - 1)%nat else idx.

Fixpoint put_at_key (fuel : nat) (t : nt) (key v : bytes) (flags : N) : res nt :=
  match fuel with O => OutOfFuel | S f =>
    match materialize t with NT h ins kids =>
      if h_leaf h then
        (* "misplaced bucket header" / "unexpected bucket header flag" panics of Bucket.spill *)
        match ilookup key ins with
        | Some x => if N.odd (i_flags x) then
                      let? n' := put (h_pgid h + 2) {| n_leaf := true; n_unbal := h_unbal h; n_inodes := ins |} key key v 0 flags in
                      Ok (NT h (n_inodes n') [])
                    else Panic
        | None => Panic
        end
      else
        let i := seek_index ins key in
        match nth_error kids i with
        | None => Panic
        | Some c => let? c' := put_at_key f c key v flags in Ok (NT h ins (replace_nth i c' kids))
        end
    end
  end.

Section CommitParent.
  Variable ps : N.
  Variable fill : N.
  (** a bucket with child buckets: rebalance, write back the value of every child whose root was materialised
      ([children]: name and new value - the 16-byte header of a paged child, Bucket.write of an inline one), then spill *)
  Definition commit_parent (fuel : nat) (t : nt) (order : list N) (children : list (bytes * bytes)) : res (nt * list ev) :=
    let? r := rebalance_all ps fill fuel t order in
    let? t2 := fold_left (fun (a : res nt) kv => let? a' := a in put_at_key fuel a' (fst kv) (snd kv) bucket_leaf_flag)
                         children (Ok (fst r)) in
    let? s := spill_root ps fill fuel t2 in
    Ok (fst s, snd r ++ snd s).

  (** ... preceded by the decision its own parent takes for it (a bucket that holds a nested bucket is never inlineable:
      inl_loop refuses bucket entries) *)
  Definition commit_parent_bucket (fuel : nat) (t : nt) (order : list N) (children : list (bytes * bytes)) : res (nt * list ev * bool) :=
    (* nothing of this bucket was touched and no child is written back: the bucket is not written *)
    if negb (h_mat (hd_of t)) && match children with [] => true | _ => false end then Ok (t, [], h_pgid (hd_of t) =? 0) else
    let? r := rebalance_all ps fill fuel t order in
    let? t2 := fold_left (fun (a : res nt) kv => let? a' := a in put_at_key fuel a' (fst kv) (snd kv) bucket_leaf_flag)
                         children (Ok (fst r)) in
    if inlineable ps t2 then
      Ok (NT {| h_mat := false; h_unbal := false; h_pgid := 0; h_ov := 0; h_key := []; h_leaf := true |} (ins_of t2) [],
          snd r ++ (if h_pgid (hd_of t2) =? 0 then [] else free_all fuel t2), true)
    else
      let? s := spill_root ps fill fuel t2 in Ok (fst s, snd r ++ snd s, false).
End CommitParent.

(** ---- what a tree means ---- *)
Fixpoint flatten (fuel : nat) (t : nt) : list inode :=
  match fuel with O => [] | S f =>
    if h_leaf (hd_of t) then ins_of t else flat_map (flatten f) (kids_of t) end.

Fixpoint depth (fuel : nat) (t : nt) : nat :=
  match fuel with O => O | S f => S (fold_left (fun a c => Nat.max a (depth f c)) (kids_of t) O) end.

(** no vertex other than the root is an empty leaf, and no branch is empty *)
Fixpoint no_empty (fuel : nat) (root : bool) (t : nt) : bool :=
  match fuel with O => false | S f =>
    (root || negb (match ins_of t with [] => true | _ => false end))
    && (h_leaf (hd_of t) || (Nat.eqb (length (ins_of t)) (length (kids_of t)) && forallb (no_empty f false) (kids_of t)))
  end.

(** page ids (with their overflow runs) of the vertices that sit on a page *)
Fixpoint page_runs (fuel : nat) (t : nt) : list (N * N) :=
  match fuel with O => [] | S f =>
    (if h_pgid (hd_of t) =? 0 then [] else [(h_pgid (hd_of t), h_ov (hd_of t))]) ++ flat_map (page_runs f) (kids_of t) end.
