(** C01: a crash at any point of a commit, with any fate of the un-synced writes, recovers the previous committed
    state or - only once its meta page was completely persisted - the new one; never a mixture. *)
From Bbolt Require Import Base Crash.

Lemma plookup_notin p l : (forall c, ~ In (p, c) l) -> plookup p l = None.
Proof.
  induction l as [|[q c] l IH]; intros H; [reflexivity|]. simpl.
  destruct (N.eqb_spec p q) as [->|]; [exfalso; apply (H c); left; reflexivity|]. apply IH. intros c' Hc. apply (H c'). right; exact Hc.
Qed.

(** data writes of pages in [A] do not touch the content of any page outside [A], nor the metas, whatever their fate *)
Lemma apply_sel_data_metas A T : forall ss i,
  i_m0 (apply_sel i (map (fun q => WData q T) A) ss) = i_m0 i /\
  i_m1 (apply_sel i (map (fun q => WData q T) A) ss) = i_m1 i.
Proof.
  induction A as [|a A IH]; intros ss i; simpl; [destruct ss; auto|].
  destruct ss as [|s ss]; [auto|].
  destruct (IH ss (apply_wr i (WData a T) s)) as (E2 & E3). rewrite E2, E3. destruct s; simpl; auto.
Qed.

Lemma apply_sel_data_frame A T : forall ss i p, ~ In p A ->
  page_content (apply_sel i (map (fun q => WData q T) A) ss) p = page_content i p.
Proof.
  induction A as [|a A IH]; intros ss i p Hn; simpl; [destruct ss; auto|].
  destruct ss as [|s ss]; [auto|].
  assert (Hna : ~ In p A) by (intros H; apply Hn; right; exact H).
  rewrite (IH ss (apply_wr i (WData a T) s) p Hna).
  destruct s; simpl; auto; unfold page_content; simpl;
    destruct (N.eqb_spec p a) as [->|]; auto; exfalso; apply Hn; left; reflexivity.
Qed.

Lemma fold_full_data A T : forall i,
  let i' := fold_left (fun i w => apply_wr i w Full) (map (fun q => WData q T) A) i in
  (forall p, In p A -> page_content i' p = Some (Some T)) /\
  (forall p, ~ In p A -> page_content i' p = page_content i p) /\ i_m0 i' = i_m0 i /\ i_m1 i' = i_m1 i.
Proof.
  induction A as [|a A IH]; intros i; cbn [map fold_left]; [repeat split; auto; intros p []|].
  destruct (IH (apply_wr i (WData a T) Full)) as (H1 & H2 & H3 & H4). repeat split.
  - intros p [<-|Hp]; [|auto].
    destruct (in_dec N.eq_dec a A) as [Hin|Hnin]; [auto|]. rewrite H2 by exact Hnin.
    unfold page_content. simpl. now rewrite N.eqb_refl.
  - intros p Hn. rewrite H2 by (intros H; apply Hn; right; exact H).
    unfold page_content. simpl. destruct (N.eqb_spec p a) as [->|]; [exfalso; apply Hn; left; reflexivity | reflexivity].
  - rewrite H3. reflexivity.
  - rewrite H4. reflexivity.
Qed.

Lemma run_ev_writes ws : forall d pend, run_ev d pend (map EW ws) = (d, pend ++ ws).
Proof.
  induction ws as [|w ws IH]; intros d pend; simpl; [now rewrite app_nil_r|]. rewrite IH, <- app_assoc. reflexivity.
Qed.

Lemma firstn_map_data k A T : firstn k (map (fun p => EW (WData p T)) A) = map EW (map (fun q => WData q T) (firstn k A)).
Proof. rewrite !firstn_map. rewrite map_map. reflexivity. Qed.

(** what recovery may find, for a previous committed txid [t] and an in-flight txid [T = t+1] *)
Definition outcome (d i : img) (t T : N) (A : list N) : Prop :=
  (recover i = Some t /\ (forall p, ~ In p A -> page_content i p = page_content d p)) \/
  (recover i = Some T /\ (forall p, In p A -> page_content i p = Some (Some T)) /\
                         (forall p, ~ In p A -> page_content i p = page_content d p)).

Lemma recover_old d t : at_rest d t -> recover d = Some t.
Proof.
  unfold at_rest, recover. destruct (N.odd t); intros [E H]; rewrite E.
  - destruct (i_m0 d) as [x|]; [|reflexivity]. specialize (H x eq_refl). f_equal. lia.
  - destruct (i_m1 d) as [x|]; [|reflexivity]. specialize (H x eq_refl). f_equal. lia.
Qed.

(** the in-flight meta goes to the slot that does NOT hold the committed meta; whatever becomes of that write,
    recovery sees the old txid (skip / torn) or the new one (fully persisted) *)
Lemma meta_write_outcomes d t s : at_rest d t ->
  let i := apply_wr d (WMeta (N.odd (t + 1)) (t + 1)) s in
  i_pages i = i_pages d /\
  match s with Full => recover i = Some (t + 1) | _ => recover i = Some t end.
Proof.
  intros H. pose proof (recover_old d t H) as R. unfold at_rest in H.
  assert (Hodd : N.odd (t + 1) = negb (N.odd t)).
  { rewrite N.add_1_r, N.odd_succ. rewrite <- N.negb_odd. reflexivity. }
  rewrite Hodd. destruct (N.odd t); cbn [negb]; destruct H as [E H].
  - (* committed meta in slot 1, the in-flight one goes to slot 0 *)
    destruct s; cbn [apply_wr i_pages]; (split; [reflexivity|]); unfold recover in *; cbn [i_m0 i_m1]; rewrite ?E in *.
    + exact R.
    + f_equal. lia.
    + reflexivity.
  - destruct s; cbn [apply_wr i_pages]; (split; [reflexivity|]); unfold recover in *; cbn [i_m0 i_m1]; rewrite ?E in *.
    + exact R.
    + f_equal. lia.
    + reflexivity.
Qed.

Lemma recover_metas i j : i_m0 i = i_m0 j -> i_m1 i = i_m1 j -> recover i = recover j.
Proof. unfold recover. intros -> ->. reflexivity. Qed.

Lemma in_firstn {A} (x : A) k l : In x (firstn k l) -> In x l.
Proof. revert l; induction k as [|k IH]; intros [|y l]; simpl; try tauto. intros [E|H]; [left; exact E | right; apply IH; exact H]. Qed.

Theorem crash_atomic d t A k ss : at_rest d t ->
  outcome d (crash d (commit_events (t + 1) A) k ss) t (t + 1) A.
Proof.
  intros H. set (T := t + 1). unfold crash, commit_events.
  set (D := map (fun p => EW (WData p T)) A).
  assert (LD : length D = length A) by (unfold D; apply map_length).
  pose proof (recover_old d t H) as Rold.
  destruct (fold_full_data A T d) as (F1 & F2 & F3 & F4).
  set (d1 := fold_left (fun i w => apply_wr i w Full) (map (fun q => WData q T) A) d) in *.
  assert (R1 : at_rest d1 t). { unfold at_rest in *. rewrite F3, F4. exact H. }
  destruct (Nat.le_gt_cases k (length A)) as [Hk|Hk].
  - (* crash while the data pages are being written: nothing is synced yet *)
    rewrite firstn_app, LD. replace (k - length A)%nat with O by lia. simpl firstn at 2. rewrite app_nil_r.
    unfold D. rewrite firstn_map_data, run_ev_writes. simpl app.
    left. destruct (apply_sel_data_metas (firstn k A) T ss d) as (M0 & M1). split.
    + rewrite (recover_metas _ d M0 M1). exact Rold.
    + intros p Hn. apply apply_sel_data_frame. intros Hin. apply Hn. eapply in_firstn; exact Hin.
  - (* all data writes issued *)
    rewrite firstn_app, LD. rewrite firstn_all2 by (rewrite LD; lia).
    assert (RunD : forall rest, run_ev d [] (D ++ ESync :: rest) = run_ev d1 [] rest).
    { intros rest. unfold D. rewrite <- (map_map (fun q => WData q T) EW).
      assert (G : forall ws dd pend r, run_ev dd pend (map EW ws ++ r) = run_ev dd (pend ++ ws) r).
      { induction ws as [|w ws IHw]; intros dd pend r; simpl; [now rewrite app_nil_r|]. rewrite IHw, <- app_assoc. reflexivity. }
      rewrite G. simpl. reflexivity. }
    destruct (k - length A)%nat as [|[|[|m]]] eqn:Ek; [lia | | |].
    + (* after the data sync, before the meta write *)
      simpl firstn. rewrite RunD. simpl. left. split.
      * destruct ss; simpl; rewrite (recover_metas d1 d F3 F4); exact Rold.
      * intros p Hn. destruct ss; simpl; apply F2; exact Hn.
    + (* meta write issued, not yet synced: its fate decides *)
      simpl firstn. rewrite RunD. simpl.
      destruct ss as [|s ss]; simpl.
      * left. split; [rewrite (recover_metas d1 d F3 F4); exact Rold | intros p Hn; apply F2; exact Hn].
      * destruct (meta_write_outcomes d1 t s R1) as (Pg & Rc). fold T in Pg, Rc.
        assert (PC : forall p, page_content (apply_wr d1 (WMeta (N.odd T) T) s) p = page_content d1 p).
        { intros p. unfold page_content. rewrite Pg. reflexivity. }
        assert (E : apply_sel (apply_wr d1 (WMeta (N.odd T) T) s) [] ss = apply_wr d1 (WMeta (N.odd T) T) s) by (destruct ss; reflexivity).
        try rewrite E. destruct s.
        -- left. split; [exact Rc | intros p Hn; rewrite PC; apply F2; exact Hn].
        -- right. split; [exact Rc|]. split; [intros p Hp; rewrite PC; apply F1; exact Hp | intros p Hn; rewrite PC; apply F2; exact Hn].
        -- left. split; [exact Rc | intros p Hn; rewrite PC; apply F2; exact Hn].
    + (* meta synced: the commit is durable *)
      simpl firstn. rewrite RunD. simpl.
      destruct (meta_write_outcomes d1 t Full R1) as (Pg & Rc). fold T in Pg, Rc.
      assert (PC : forall p, page_content (apply_wr d1 (WMeta (N.odd T) T) Full) p = page_content d1 p).
      { intros p. unfold page_content. rewrite Pg. reflexivity. }
      replace (firstn m []) with (@nil ev) by (destruct m; reflexivity). simpl.
      assert (E : apply_sel (apply_wr d1 (WMeta (N.odd T) T) Full) [] ss = apply_wr d1 (WMeta (N.odd T) T) Full) by (destruct ss; reflexivity).
      try rewrite E. right. split; [exact Rc|]. split; [intros p Hp; rewrite PC; apply F1; exact Hp | intros p Hn; rewrite PC; apply F2; exact Hn].
Qed.

Local Arguments apply_wr : simpl never.

(** the new state is recovered ONLY when the meta write was completely persisted, and then always *)
Theorem crash_new_iff_meta_persisted d t A k ss : at_rest d t ->
  (recover (crash d (commit_events (t + 1) A) k ss) = Some (t + 1) <->
   (k = (length A + 2)%nat /\ hd Skip ss = Full) \/ (length A + 3 <= k)%nat).
Proof.
  intros H. set (T := t + 1). unfold crash, commit_events.
  set (D := map (fun p => EW (WData p T)) A).
  assert (LD : length D = length A) by (unfold D; apply map_length).
  pose proof (recover_old d t H) as Rold.
  destruct (fold_full_data A T d) as (F1 & F2 & F3 & F4).
  set (d1 := fold_left (fun i w => apply_wr i w Full) (map (fun q => WData q T) A) d) in *.
  assert (R1 : at_rest d1 t). { unfold at_rest in *. rewrite F3, F4. exact H. }
  assert (Tne : Some t <> Some T) by (intros E; inversion E; unfold T in *; lia).
  destruct (Nat.le_gt_cases k (length A)) as [Hk|Hk].
  - rewrite firstn_app, LD. replace (k - length A)%nat with O by lia. simpl firstn at 2. rewrite app_nil_r.
    unfold D. rewrite firstn_map_data, run_ev_writes. simpl app.
    destruct (apply_sel_data_metas (firstn k A) T ss d) as (M0 & M1). rewrite (recover_metas _ d M0 M1), Rold.
    split; [intros E; exfalso; exact (Tne E) | intros [[E _]|E]; lia].
  - rewrite firstn_app, LD. rewrite firstn_all2 by (rewrite LD; lia).
    assert (RunD : forall rest, run_ev d [] (D ++ ESync :: rest) = run_ev d1 [] rest).
    { intros rest. unfold D. rewrite <- (map_map (fun q => WData q T) EW).
      assert (G : forall ws dd pend r, run_ev dd pend (map EW ws ++ r) = run_ev dd (pend ++ ws) r).
      { induction ws as [|w ws IHw]; intros dd pend r; simpl; [now rewrite app_nil_r|]. rewrite IHw, <- app_assoc. reflexivity. }
      rewrite G. simpl. reflexivity. }
    destruct (k - length A)%nat as [|[|[|m]]] eqn:Ek; [lia | | |].
    + simpl firstn. rewrite RunD. simpl.
      assert (E : recover d1 = Some t) by (rewrite (recover_metas d1 d F3 F4); exact Rold).
      replace (apply_sel d1 [] ss) with d1 by (destruct ss; reflexivity).
      rewrite E. split; [intros X; exfalso; exact (Tne X) | intros [[X _]|X]; lia].
    + simpl firstn. rewrite RunD. simpl.
      destruct ss as [|s ss]; simpl.
      * rewrite (recover_metas d1 d F3 F4), Rold. split; [intros X; exfalso; exact (Tne X) | intros [[_ X]|X]; [discriminate | lia]].
      * destruct (meta_write_outcomes d1 t s R1) as (_ & Rc). fold T in Rc.
        assert (E : apply_sel (apply_wr d1 (WMeta (N.odd T) T) s) [] ss = apply_wr d1 (WMeta (N.odd T) T) s) by (destruct ss; reflexivity).
        try rewrite E. destruct s; rewrite Rc.
        -- split; [intros X; exfalso; exact (Tne X) | intros [[_ X]|X]; [discriminate | lia]].
        -- split; [intros _; left; split; [lia | reflexivity] | reflexivity].
        -- split; [intros X; exfalso; exact (Tne X) | intros [[_ X]|X]; [discriminate | lia]].
    + simpl firstn. rewrite RunD. simpl.
      destruct (meta_write_outcomes d1 t Full R1) as (_ & Rc). fold T in Rc.
      replace (firstn m []) with (@nil ev) by (destruct m; reflexivity). simpl.
      assert (E : apply_sel (apply_wr d1 (WMeta (N.odd T) T) Full) [] ss = apply_wr d1 (WMeta (N.odd T) T) Full) by (destruct ss; reflexivity).
      try rewrite E. rewrite Rc. split; [intros _; right; lia | reflexivity].
Qed.

(** after the commit completed, the image is at rest at the new txid: the same theorems apply to the next commit *)
Theorem commit_reestablishes_rest d t A : at_rest d t ->
  at_rest (fst (run_ev d [] (commit_events (t + 1) A))) (t + 1).
Proof.
  intros H. set (T := t + 1). unfold commit_events.
  destruct (fold_full_data A T d) as (_ & _ & F3 & F4).
  set (d1 := fold_left (fun i w => apply_wr i w Full) (map (fun q => WData q T) A) d) in *.
  assert (G : forall ws dd pend r, run_ev dd pend (map EW ws ++ r) = run_ev dd (pend ++ ws) r).
  { induction ws as [|w ws IHw]; intros dd pend r; simpl; [now rewrite app_nil_r|]. rewrite IHw, <- app_assoc. reflexivity. }
  rewrite <- (map_map (fun q => WData q T) EW). rewrite G. simpl. fold d1.
  assert (Hodd : N.odd T = negb (N.odd t)).
  { unfold T. rewrite N.add_1_r, N.odd_succ. rewrite <- N.negb_odd. reflexivity. }
  unfold at_rest in *. rewrite Hodd. destruct (N.odd t); simpl; destruct H as [E Hx]; rewrite ?F3, ?F4 in *; simpl.
  - split; [reflexivity|]. intros x Hx'. rewrite E in Hx'. inversion Hx'. unfold T. lia.
  - split; [reflexivity|]. intros x Hx'. rewrite E in Hx'. inversion Hx'. unfold T. lia.
Qed.
