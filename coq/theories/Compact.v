(** Compact: model of compact.go over the reference map Spec.v.
    [walk] enumerates the source (one read transaction) exactly as walk/walkBucket do: for every bucket a
    callback (path, name, nil, sequence) followed by its content; for every pair (path, key, value).
    [apply_item] is the body of Compact's callback: CreateBucket + SetSequence, or Put, on the destination,
    re-resolving the path from the root every time (so intermediate commits, which leave Spec content unchanged,
    cannot matter: [txMaxSize] only decides where they happen).  Definitions only. *)
From Bbolt Require Import Base Consts Spec.

Inductive item := IBkt (path : list bytes) (name : bytes) (seq : N) | IVal (path : list bytes) (k v : bytes).

Fixpoint walk_ents (fuel : nat) (path : list bytes) (ents : list (bytes * entry)) : list item :=
  match fuel with O => [] | S f =>
    flat_map (fun ke => match snd ke with
                        | Val v => [IVal path (fst ke) v]
                        | Sub s es => IBkt path (fst ke) s :: walk_ents f (path ++ [fst ke]) es
                        end) ents
  end.

(** nesting depth of a bucket content (fuel for the walk) *)
Fixpoint depth_ents (fuel : nat) (ents : list (bytes * entry)) : nat :=
  match fuel with O => O | S f =>
    S (fold_right (fun ke a => match snd ke with Val _ => a | Sub _ es => Nat.max (depth_ents f es) a end) O ents)
  end.

Definition walk (fuel : nat) (src : bucket) : list item := walk_ents fuel [] (snd src).

Definition apply_item (dst : bucket) (it : item) : err * bucket :=
  match it with
  | IBkt path name seq =>
      match create_bucket path name dst with
      | (ENone, d1) => set_sequence (path ++ [name]) seq d1
      | r => r
      end
  | IVal path k v => put path k v (len v) dst
  end.

Fixpoint apply_items (dst : bucket) (its : list item) : err * bucket :=
  match its with
  | [] => (ENone, dst)
  | it :: r => match apply_item dst it with (ENone, d1) => apply_items d1 r | e => e end
  end.

(** Compact(dst = empty, src, any txMaxSize) *)
Definition compact (fuel : nat) (src : bucket) : err * bucket := apply_items (0, []) (walk fuel src).

(** what a source produced through the API satisfies: names and keys non-empty, value keys within the key-size
    limit, values within the value-size limit, keys strictly ascending at every level *)
Fixpoint wf_ents (fuel : nat) (ents : list (bytes * entry)) : bool :=
  match fuel with O => false | S f =>
    keys_sorted ents &&
    forallb (fun ke => negb (len (fst ke) =? 0) &&
                       match snd ke with
                       | Val v => (len (fst ke) <=? max_key_size) && (len v <=? max_value_size)
                       | Sub _ es => wf_ents f es
                       end) ents
  end.
