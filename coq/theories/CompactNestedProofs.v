(** Compact reproduces the source exactly, for arbitrarily nested buckets. *)
From Bbolt Require Import Base Consts Spec SpecProofs Compact CompactProofs.
From Coq Require Import ZifyN ZifyNat ZifyBool.

(** * apply_items over an append *)
Lemma apply_items_app d a b :
  apply_items d (a ++ b) = match apply_items d a with (ENone, d1) => apply_items d1 b | e => e end.
Proof.
  revert d. induction a as [|it a IH]; intros d; [reflexivity|].
  cbn [app apply_items]. destruct (apply_item d it) as [e d1]. destruct e; try reflexivity. apply IH.
Qed.

(** compact_source_independent_of_limit: (documented triviality) the model [compact] has no txMaxSize
    parameter at all: [apply_item] re-resolves the path from the root on every call and intermediate commits
    leave the Spec content unchanged, so the result cannot depend on where commits happen. *)

(** * sequences must fit in a uint64 (they always do in Go); [set_sequence] stores [v mod M64] *)
Fixpoint seqs_ok (fuel : nat) (ents : list (bytes * entry)) : bool :=
  match fuel with O => true | S f =>
    forallb (fun ke => match snd ke with
                       | Val _ => true
                       | Sub s es => (s <? M64) && seqs_ok f es
                       end) ents
  end.

(** the statement as given is false without it *)
Example compact_rebuilds_needs_seq_bound :
  let src : bucket := (0, [([1], Sub M64 [])]) in
  wf_ents 2 (snd src) = true /\ compact 2 src = (ENone, (0, [([1], Sub 0 [])])) /\ compact 2 src <> (ENone, (0, snd src)).
Proof. vm_compute. repeat split; try reflexivity. discriminate. Qed.

(** * association-list helpers *)
Definition all_lt (prefix : list (bytes * entry)) (k : bytes) : Prop :=
  forall k' e', In (k', e') prefix -> bcmp k' k = Lt.

Lemma lookup_all_lt prefix k l : all_lt prefix k -> lookup k (prefix ++ l) = lookup k l.
Proof.
  induction prefix as [|[k0 e0] p IH]; intros H; [reflexivity|].
  cbn [app lookup]. assert (E : bcmp k k0 = Gt). { apply bcmp_gt_lt. apply (H k0 e0). left; reflexivity. }
  rewrite E. apply IH. intros k' e' Hin. apply (H k' e'). right; exact Hin.
Qed.

Lemma insert_all_lt prefix k e l : all_lt prefix k -> insert k e (prefix ++ l) = prefix ++ insert k e l.
Proof.
  induction prefix as [|[k0 e0] p IH]; intros H; [reflexivity|].
  cbn [app insert]. assert (E : bcmp k k0 = Gt). { apply bcmp_gt_lt. apply (H k0 e0). left; reflexivity. }
  rewrite E. f_equal. apply IH. intros k' e' Hin. apply (H k' e'). right; exact Hin.
Qed.

Lemma insert_insert k e1 e2 l : insert k e2 (insert k e1 l) = insert k e2 l.
Proof.
  induction l as [|[k' e'] l IH]; cbn [insert].
  - now rewrite bcmp_refl.
  - destruct (bcmp k k') eqn:E; cbn [insert].
    + now rewrite bcmp_refl.
    + now rewrite bcmp_refl.
    + rewrite E. now rewrite IH.
Qed.

Lemma sorted_mid_all_lt prefix k e rest : keys_sorted (prefix ++ (k, e) :: rest) = true -> all_lt prefix k.
Proof.
  intros H. replace (prefix ++ (k, e) :: rest) with ((prefix ++ [(k, e)]) ++ rest) in H
    by (rewrite <- app_assoc; reflexivity).
  apply keys_sorted_prefix in H. apply keys_sorted_app_cons in H. exact (proj2 H).
Qed.

(** * paths *)
Lemma resolve_app p q : forall d, resolve (p ++ q) d = match resolve p d with Some b => resolve q b | None => None end.
Proof.
  induction p as [|n p IH]; intros d; [reflexivity|].
  cbn [app resolve]. destruct (lookup n (snd d)) as [[v|s es]|]; try reflexivity. apply IH.
Qed.

Lemma update_app p q nb : forall d b, resolve p d = Some b -> update (p ++ q) nb d = update p (update q nb b) d.
Proof.
  induction p as [|n p IH]; intros d b H.
  - cbn in H. inversion H; subst. reflexivity.
  - cbn [app update resolve] in *. destruct (lookup n (snd d)) as [[v|s es]|]; try discriminate.
    rewrite (IH _ _ H). reflexivity.
Qed.

Lemma update_update p b1 b2 : forall d b0, resolve p d = Some b0 -> update p b2 (update p b1 d) = update p b2 d.
Proof.
  induction p as [|n p IH]; intros d b0 H; [reflexivity|].
  cbn [update resolve] in *. destruct (lookup n (snd d)) as [[v|s es]|] eqn:L; try discriminate.
  destruct (update p b1 (s, es)) as [s1 es1] eqn:U1. cbn [fst snd].
  rewrite lookup_insert_same. rewrite <- U1. rewrite (IH _ _ H).
  destruct (update p b2 (s, es)) as [s2 es2]. now rewrite insert_insert.
Qed.

(** * single steps of the copy *)
Lemma put_step path k v d s prefix :
  resolve path d = Some (s, prefix) -> (len k =? 0) = false ->
  (len k <=? max_key_size) = true -> (len v <=? max_value_size) = true -> all_lt prefix k ->
  put path k v (len v) d = (ENone, update path (s, prefix ++ [(k, Val v)]) d).
Proof.
  intros R Hk Hks Hvs Hlt. unfold put. rewrite R, Hk.
  replace (max_key_size <? len k) with false by (symmetry; apply N.ltb_ge; apply N.leb_le; exact Hks).
  replace (max_value_size <? len v) with false by (symmetry; apply N.ltb_ge; apply N.leb_le; exact Hvs).
  cbn [fst snd].
  pose proof (lookup_all_lt prefix k [] Hlt) as L. rewrite app_nil_r in L. rewrite L. cbn [lookup].
  pose proof (insert_all_lt prefix k (Val v) [] Hlt) as I. rewrite app_nil_r in I. rewrite I. reflexivity.
Qed.

Lemma sub_resolve path k d s prefix sq es :
  resolve path d = Some (s, prefix) -> all_lt prefix k ->
  resolve (path ++ [k]) (update path (s, prefix ++ [(k, Sub sq es)]) d) = Some (sq, es).
Proof.
  intros R Hlt. rewrite resolve_app. rewrite (resolve_update path _ d _ R).
  cbn [resolve snd]. rewrite (lookup_all_lt prefix k _ Hlt). cbn [lookup]. now rewrite bcmp_refl.
Qed.

Lemma sub_fill path k d s prefix sq0 es0 sq es :
  resolve path d = Some (s, prefix) -> all_lt prefix k ->
  update (path ++ [k]) (sq, es) (update path (s, prefix ++ [(k, Sub sq0 es0)]) d)
  = update path (s, prefix ++ [(k, Sub sq es)]) d.
Proof.
  intros R Hlt. rewrite (update_app path [k] _ _ _ (resolve_update path _ d _ R)).
  rewrite (update_update _ _ _ _ _ R). f_equal.
  cbn [update snd fst]. rewrite (lookup_all_lt prefix k _ Hlt). cbn [lookup]. rewrite bcmp_refl.
  rewrite (insert_all_lt prefix k _ _ Hlt). cbn [insert]. now rewrite bcmp_refl.
Qed.

Lemma bkt_step path k sq d s prefix :
  resolve path d = Some (s, prefix) -> (len k =? 0) = false -> sq < M64 -> all_lt prefix k ->
  apply_item d (IBkt path k sq) = (ENone, update path (s, prefix ++ [(k, Sub sq [])]) d).
Proof.
  intros R Hk Hsq Hlt. cbn [apply_item]. unfold create_bucket. rewrite R, Hk. cbn [fst snd].
  pose proof (lookup_all_lt prefix k [] Hlt) as L. rewrite app_nil_r in L. rewrite L. cbn [lookup].
  pose proof (insert_all_lt prefix k (Sub 0 []) [] Hlt) as I. rewrite app_nil_r in I. rewrite I. cbn [insert].
  unfold set_sequence. rewrite (sub_resolve _ _ _ _ _ _ _ R Hlt). cbn [fst snd].
  rewrite (N.mod_small _ _ Hsq). rewrite (sub_fill _ _ _ _ _ _ _ _ _ R Hlt). reflexivity.
Qed.

Lemma wf_ents_sorted fuel ents : wf_ents fuel ents = true -> keys_sorted ents = true.
Proof. destruct fuel as [|f]; cbn [wf_ents]; [discriminate|]. intros H. apply andb_true_iff in H. tauto. Qed.

(** * the generalised statement: copying [ents] into the destination bucket at [path], which already holds
    [prefix] (all keys smaller), yields exactly [prefix ++ ents] there and changes nothing else *)
Lemma walk_ents_correct : forall fuel path ents d s prefix,
  wf_ents fuel ents = true -> seqs_ok fuel ents = true ->
  resolve path d = Some (s, prefix) -> keys_sorted (prefix ++ ents) = true ->
  apply_items d (walk_ents fuel path ents) = (ENone, update path (s, prefix ++ ents) d).
Proof.
  induction fuel as [|f IHf]; intros path ents d s prefix Hwf Hsq R Hs; [discriminate|].
  cbn [wf_ents seqs_ok walk_ents] in *.
  apply andb_true_iff in Hwf. destruct Hwf as [_ Hwf].
  revert d prefix R Hs. induction ents as [|[k e] rest IH]; intros d prefix R Hs.
  - cbn [flat_map apply_items]. rewrite app_nil_r.
    f_equal. symmetry. clear -R. revert d R. induction path as [|n p IHp]; intros d R.
    + cbn in *. now inversion R.
    + cbn [resolve update] in *. destruct (lookup n (snd d)) as [[v|s0 es0]|] eqn:L; try discriminate.
      rewrite (IHp _ R). destruct d as [sd ld]. cbn [fst snd] in *. f_equal.
      clear -L. induction ld as [|[k' e'] l IHl]; cbn [lookup insert] in *; [discriminate|].
      destruct (bcmp n k') eqn:E; try discriminate.
      * apply bcmp_eq in E. subst. now inversion L.
      * f_equal. now apply IHl.
  - cbn [forallb fst snd] in Hwf, Hsq.
    apply andb_true_iff in Hwf. destruct Hwf as [Hke Hwf].
    apply andb_true_iff in Hke. destruct Hke as [Hk He].
    apply negb_true_iff in Hk.
    apply andb_true_iff in Hsq. destruct Hsq as [Hse Hsq].
    pose proof (sorted_mid_all_lt _ _ _ _ Hs) as Hlt.
    assert (Hs' : keys_sorted ((prefix ++ [(k, e)]) ++ rest) = true)
      by (rewrite <- app_assoc; exact Hs).
    assert (Happ : prefix ++ (k, e) :: rest = (prefix ++ [(k, e)]) ++ rest)
      by (rewrite <- app_assoc; reflexivity).
    cbn [flat_map fst snd]. destruct e as [v|sq es].
    + apply andb_true_iff in He. destruct He as [Hks Hvs].
      cbn [app apply_items apply_item].
      rewrite (put_step _ _ _ _ _ _ R Hk Hks Hvs Hlt).
      rewrite (IH Hwf Hsq _ (prefix ++ [(k, Val v)]) (resolve_update path _ d _ R) Hs').
      rewrite (update_update _ _ _ _ _ R). now rewrite Happ.
    + apply andb_true_iff in Hse. destruct Hse as [Hsqb Hses]. apply N.ltb_lt in Hsqb.
      cbn [app apply_items].
      rewrite (bkt_step _ _ _ _ _ _ R Hk Hsqb Hlt).
      rewrite apply_items_app.
      rewrite (IHf (path ++ [k]) es _ sq [] He Hses (sub_resolve _ _ _ _ _ _ _ R Hlt)
                 (wf_ents_sorted _ _ He)).
      cbn [app]. rewrite (sub_fill _ _ _ _ _ _ _ _ _ R Hlt).
      rewrite (IH Hwf Hsq _ (prefix ++ [(k, Sub sq es)]) (resolve_update path _ d _ R) Hs').
      rewrite (update_update _ _ _ _ _ R). now rewrite Happ.
Qed.

(** * main theorem *)
Theorem compact_rebuilds_seq : forall fuel src,
  wf_ents fuel (snd src) = true -> seqs_ok fuel (snd src) = true ->
  compact fuel src = (ENone, (0, snd src)).
Proof.
  intros fuel src Hwf Hsq. unfold compact, walk.
  rewrite (walk_ents_correct fuel [] (snd src) (0, []) 0 [] Hwf Hsq eq_refl (wf_ents_sorted _ _ Hwf)).
  reflexivity.
Qed.

(** * without the bound: the destination is the source with every nested sequence reduced modulo 2^64 *)
Fixpoint norm_ents (fuel : nat) (ents : list (bytes * entry)) : list (bytes * entry) :=
  match fuel with O => ents | S f =>
    map (fun ke => (fst ke, match snd ke with
                            | Val v => Val v
                            | Sub s es => Sub (s mod M64) (norm_ents f es)
                            end)) ents
  end.

Definition norm_item (it : item) : item :=
  match it with IBkt p n s => IBkt p n (s mod M64) | IVal p k v => IVal p k v end.

Lemma M64_nz : M64 <> 0.
Proof. unfold M64. discriminate. Qed.

Lemma apply_item_norm d it : apply_item d (norm_item it) = apply_item d it.
Proof.
  destruct it as [p n s|p k v]; [|reflexivity]. cbn [norm_item apply_item].
  destruct (create_bucket p n d) as [e d1]. destruct e; try reflexivity.
  unfold set_sequence. now rewrite (N.mod_mod s M64 M64_nz).
Qed.

Lemma apply_items_norm l : forall d, apply_items d (map norm_item l) = apply_items d l.
Proof.
  induction l as [|it l IH]; intros d; [reflexivity|].
  cbn [map apply_items]. rewrite apply_item_norm. destruct (apply_item d it) as [e d1].
  destruct e; try reflexivity. apply IH.
Qed.

Lemma walk_norm : forall fuel path ents,
  walk_ents fuel path (norm_ents fuel ents) = map norm_item (walk_ents fuel path ents).
Proof.
  induction fuel as [|f IHf]; intros path ents; [reflexivity|].
  cbn [walk_ents norm_ents]. induction ents as [|[k e] rest IH]; [reflexivity|].
  cbn [map flat_map fst snd]. rewrite map_app. rewrite IH. f_equal.
  destruct e as [v|s es]; [reflexivity|]. cbn [map norm_item]. now rewrite IHf.
Qed.

Lemma keys_sorted_map (g : bytes * entry -> entry) l :
  keys_sorted (map (fun ke => (fst ke, g ke)) l) = keys_sorted l.
Proof.
  induction l as [|[k e] l IH]; [reflexivity|].
  destruct l as [|[k' e'] l]; [reflexivity|].
  cbn [map fst] in *. cbn [keys_sorted] in *. now rewrite IH.
Qed.

Lemma wf_norm : forall fuel ents, wf_ents fuel (norm_ents fuel ents) = wf_ents fuel ents.
Proof.
  induction fuel as [|f IHf]; intros ents; [reflexivity|].
  cbn [wf_ents norm_ents]. rewrite keys_sorted_map. f_equal.
  induction ents as [|[k e] rest IH]; [reflexivity|].
  cbn [map forallb fst snd]. rewrite IH. f_equal. f_equal.
  destruct e as [v|s es]; [reflexivity|]. apply IHf.
Qed.

Lemma seqs_norm : forall fuel ents, seqs_ok fuel (norm_ents fuel ents) = true.
Proof.
  induction fuel as [|f IHf]; intros ents; [reflexivity|].
  cbn [seqs_ok norm_ents]. induction ents as [|[k e] rest IH]; [reflexivity|].
  cbn [map forallb fst snd]. rewrite IH. rewrite andb_true_r.
  destruct e as [v|s es]; [reflexivity|]. rewrite IHf, andb_true_r.
  apply N.ltb_lt. apply N.mod_lt. exact M64_nz.
Qed.

Lemma norm_id_iff : forall fuel ents, norm_ents fuel ents = ents <-> seqs_ok fuel ents = true.
Proof.
  induction fuel as [|f IHf]; intros ents; [cbn; tauto|].
  cbn [seqs_ok norm_ents]. induction ents as [|[k e] rest IH]; [cbn; tauto|].
  cbn [map forallb fst snd]. rewrite andb_true_iff. rewrite <- IH. split.
  - intros H. inversion H as [[He Hr]]. rewrite !Hr. split; [|reflexivity].
    destruct e as [v|s es]; [reflexivity|]. inversion He as [[Hs Hes]]. rewrite !Hes.
    apply andb_true_iff. split.
    + apply N.ltb_lt. rewrite <- Hs. apply N.mod_lt. exact M64_nz.
    + apply IHf. exact Hes.
  - intros [He Hr]. rewrite Hr. f_equal. f_equal.
    destruct e as [v|s es]; [reflexivity|]. apply andb_true_iff in He. destruct He as [Hs Hes].
    apply N.ltb_lt in Hs. rewrite (N.mod_small _ _ Hs). f_equal. apply IHf. exact Hes.
Qed.

(** Compact of ANY well-formed source: exact result, no further hypothesis *)
Theorem compact_rebuilds_norm : forall fuel src,
  wf_ents fuel (snd src) = true -> compact fuel src = (ENone, (0, norm_ents fuel (snd src))).
Proof.
  intros fuel src Hwf. unfold compact, walk.
  rewrite <- apply_items_norm, <- walk_norm.
  apply (compact_rebuilds_seq fuel (fst src, norm_ents fuel (snd src))); cbn [snd].
  - now rewrite wf_norm.
  - apply seqs_norm.
Qed.

(** the bound on the sequences is exactly what the statement of the task needs: necessary and sufficient *)
Theorem compact_rebuilds_iff : forall fuel src, wf_ents fuel (snd src) = true ->
  (compact fuel src = (ENone, (0, snd src)) <-> seqs_ok fuel (snd src) = true).
Proof.
  intros fuel src Hwf. rewrite (compact_rebuilds_norm _ _ Hwf). rewrite <- norm_id_iff. split.
  - intros H. congruence.
  - intros H. now rewrite H.
Qed.

(** the statement of the task, with the one hypothesis it needs *)
Theorem compact_rebuilds : forall fuel src,
  wf_ents fuel (snd src) = true -> seqs_ok fuel (snd src) = true ->
  compact fuel src = (ENone, (0, snd src)).
Proof. exact compact_rebuilds_seq. Qed.

Print Assumptions apply_items_app.
Print Assumptions walk_ents_correct.
Print Assumptions compact_rebuilds_seq.
Print Assumptions compact_rebuilds_norm.
Print Assumptions compact_rebuilds_iff.
Print Assumptions compact_rebuilds.
Print Assumptions compact_rebuilds_needs_seq_bound.
