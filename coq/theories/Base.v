(** Base: shared definitions (no proofs of substance here). *)
From Coq Require Export NArith ZArith List Bool Lia.
From Coq Require Import Sorting.Mergesort Orders.
Export ListNotations.
Open Scope N_scope.

(** Three-valued results for fuelled / partial functions: a Go panic is [Panic], fuel exhaustion is
    [OutOfFuel]; neither is ever confused with a normal value. *)
Inductive res (A : Type) := Ok (a : A) | Panic | OutOfFuel.
Arguments Ok {A}. Arguments Panic {A}. Arguments OutOfFuel {A}.

Definition bindr {A B} (r : res A) (f : A -> res B) : res B :=
  match r with Ok a => f a | Panic => Panic | OutOfFuel => OutOfFuel end.
Notation "'let?' x := r 'in' k" := (bindr r (fun x => k)) (at level 200, x pattern, right associativity).

(** uint64 arithmetic written out explicitly where the code relies on it. *)
Definition M64 : N := 18446744073709551616.
Definition MAXU64 : N := 18446744073709551615.
Definition wsub1 (x : N) : N := if x =? 0 then MAXU64 else x - 1.       (* uint64(x - 1) *)
Definition wadd1 (x : N) : N := if x =? MAXU64 then 0 else x + 1.      (* uint64(x + 1) *)

(** Sorting of page ids (Go: sort.Sort(Pgids)). *)
Module NOrder <: TotalLeBool.
  Definition t := N.
  Definition leb := N.leb.
  Theorem leb_total : forall a1 a2, leb a1 a2 = true \/ leb a2 a1 = true.
  Proof. intros a b. unfold leb. destruct (N.leb_spec a b); [left; reflexivity|right]. apply N.leb_le. lia. Qed.
End NOrder.
Module NSort := Sort NOrder.

Definition sortN (l : list N) : list N := NSort.sort l.
Definition mergeN (a b : list N) : list N := NSort.merge a b.

Definition memN (x : N) (l : list N) : bool := existsb (N.eqb x) l.

(** [run p n] = [p; p+1; ...; p+n-1] *)
Fixpoint run_nat (p : N) (n : nat) : list N :=
  match n with O => [] | S n' => p :: run_nat (p + 1) n' end.
Definition run (p n : N) : list N := run_nat p (N.to_nat n).

Fixpoint sortedb (l : list N) : bool :=
  match l with
  | [] => true
  | x :: r => match r with [] => true | y :: _ => (x <? y) && sortedb r end
  end.

Fixpoint eqlN (a b : list N) : bool :=
  match a, b with
  | [], [] => true
  | x :: a', y :: b' => (x =? y) && eqlN a' b'
  | _, _ => false
  end.
