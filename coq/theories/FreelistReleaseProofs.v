(** Proofs about the model of ReleasePendingPages (Freelist.v): safety, conservation, completeness. *)
From Bbolt Require Import Base BaseProofs Freelist FreelistProofs.
From Coq Require Import Sorting.Permutation Sorting.Sorted.

(** Reader [r] (which sees version [r] of the database) needs the pending page freed by [tid] and
    allocated by [a] iff [a <= r < tid]. *)
Definition needs (r tid a : N) : bool := (a <=? r) && (r <? tid).
Definition released (p p' : list (N * txp)) (x : N * N * N) : Prop :=
  In x (pend_pairs p) /\ ~ In x (pend_pairs p').

Lemma needs_visible_to r tid a : needs r tid a = visible_to a tid r.
Proof. reflexivity. Qed.

(** * generic list facts *)

Lemma pend_pairs_app a b : pend_pairs (a ++ b) = pend_pairs a ++ pend_pairs b.
Proof. unfold pend_pairs. apply flat_map_app. Qed.

Lemma pend_pairs_cons e l :
  pend_pairs (e :: l) = map (fun pa => (fst e, fst pa, snd pa)) (t_ids (snd e)) ++ pend_pairs l.
Proof. reflexivity. Qed.

Lemma pending_ids_cons e l : pending_ids (e :: l) = map fst (t_ids (snd e)) ++ pending_ids l.
Proof. reflexivity. Qed.

Lemma filter_partition_perm {A} (f : A -> bool) (l : list A) :
  Permutation l (filter (fun x => negb (f x)) l ++ filter f l).
Proof.
  induction l as [|x l IH]; cbn [filter]; [constructor|].
  destruct (f x); cbn [negb app].
  - apply Permutation_cons_app. exact IH.
  - constructor. exact IH.
Qed.

(** the projection from triples to page ids *)
Lemma pend_pairs_ids p : map (fun t => snd (fst t)) (pend_pairs p) = pending_ids p.
Proof.
  induction p as [|e p IH]; [reflexivity|].
  rewrite pend_pairs_cons, pending_ids_cons, map_app, IH, map_map. reflexivity.
Qed.

Lemma pending_ids_in pg p : In pg (pending_ids p) <-> exists tid a, In (tid, pg, a) (pend_pairs p).
Proof.
  rewrite <- pend_pairs_ids, in_map_iff. split.
  - intros [[[tid pg'] a] [E H]]. cbn in E. subst. eauto.
  - intros [tid [a H]]. exists (tid, pg, a). split; [reflexivity | exact H].
Qed.

(** * release(txid) *)

Lemma release_fst p txid : fst (release p txid) = filter (fun e => negb (fst e <=? txid)) p.
Proof. reflexivity. Qed.

Lemma release_pairs_split p txid x :
  In x (pend_pairs p) ->
  In x (pend_pairs (fst (release p txid))) \/ fst (fst x) <= txid.
Proof.
  rewrite release_fst. induction p as [|e p IH]; [intros []|].
  rewrite pend_pairs_cons, in_app_iff. cbn [filter].
  destruct (N.leb_spec (fst e) txid) as [Hle|Hgt]; cbn [negb].
  - intros [H|H]; [|now apply IH].
    right. apply in_map_iff in H. destruct H as [pa [<- _]]. exact Hle.
  - rewrite pend_pairs_cons, in_app_iff. intros [H|H]; [left; left; exact H|].
    destruct (IH H); [left; right; assumption | right; assumption].
Qed.

Lemma release_pairs_sub p txid x :
  In x (pend_pairs (fst (release p txid))) -> In x (pend_pairs p).
Proof.
  rewrite release_fst. induction p as [|e p IH]; [intros []|].
  cbn [filter]. destruct (negb _); rewrite !pend_pairs_cons, ?in_app_iff; tauto.
Qed.

Lemma release_freed_from p txid pg :
  In pg (snd (release p txid)) -> exists tid a, In (tid, pg, a) (pend_pairs p) /\ tid <= txid.
Proof.
  unfold release. cbn [snd]. induction p as [|e p IH]; [intros []|].
  cbn [flat_map]. rewrite in_app_iff. intros [H|H].
  - destruct (N.leb_spec (fst e) txid) as [Hle|Hgt]; [|destruct H].
    apply in_map_iff in H. destruct H as [[pg' a] [E H]]. cbn in E. subst pg'.
    exists (fst e), a. split; [|exact Hle]. rewrite pend_pairs_cons, in_app_iff. left.
    apply in_map_iff. exists (pg, a). split; [reflexivity | exact H].
  - destruct (IH H) as [tid [a [Hin Hle]]]. exists tid, a. split; [|exact Hle].
    rewrite pend_pairs_cons, in_app_iff. right. exact Hin.
Qed.

Lemma release_conserves p txid :
  Permutation (pending_ids p) (pending_ids (fst (release p txid)) ++ snd (release p txid)).
Proof.
  unfold release. cbn [fst snd]. induction p as [|e p IH]; [constructor|].
  cbn [filter flat_map]. rewrite pending_ids_cons.
  destruct (fst e <=? txid); cbn [negb].
  - rewrite IH. rewrite !app_assoc. apply Permutation_app_tail, Permutation_app_comm.
  - rewrite pending_ids_cons, <- app_assoc. apply Permutation_app_head. exact IH.
Qed.

Lemma release_all p txid : (forall e, In e p -> fst e <= txid) -> fst (release p txid) = [].
Proof.
  rewrite release_fst. induction p as [|e p IH]; [reflexivity|]. intros H. cbn [filter].
  destruct (N.leb_spec (fst e) txid) as [Hle|Hgt]; cbn [negb].
  - apply IH. intros e' He'. apply H. now right.
  - specialize (H e (or_introl eq_refl)). lia.
Qed.

(** * releaseRange(begin, end) *)

(** What one pending entry contributes to the result of releaseRange. *)
Definition rebuilt (tid b : N) (keep : list (N * N)) : list (N * txp) :=
  match keep with [] => [] | _ => [(tid, {| t_ids := keep; t_lrb := b |})] end.

Definition rr_keep (b e : N) (ent : N * txp) : list (N * txp) :=
  if (fst ent <? b) || (e <? fst ent) then [ent]
  else if t_lrb (snd ent) =? b then [ent]
  else rebuilt (fst ent) b (filter (fun pa => negb (in_range b e (snd pa))) (t_ids (snd ent))).

Definition rr_rel (b e : N) (ent : N * txp) : list N :=
  if (fst ent <? b) || (e <? fst ent) then []
  else if t_lrb (snd ent) =? b then []
  else map fst (filter (fun pa => in_range b e (snd pa)) (t_ids (snd ent))).

Lemma release_range_step_eq b e acc ent :
  release_range_step b e acc ent = (fst acc ++ rr_keep b e ent, snd acc ++ rr_rel b e ent).
Proof.
  destruct ent as [tid x]. unfold release_range_step, rr_keep, rr_rel. cbn [fst snd].
  destruct ((tid <? b) || (e <? tid)); [now rewrite app_nil_r|].
  destruct (t_lrb x =? b); [now rewrite app_nil_r|].
  unfold rebuilt.
  destruct (filter (fun pa => negb (in_range b e (snd pa))) (t_ids x)); [now rewrite app_nil_r | reflexivity].
Qed.

Lemma release_range_fold b e p acc :
  fold_left (release_range_step b e) p acc
  = (fst acc ++ flat_map (rr_keep b e) p, snd acc ++ flat_map (rr_rel b e) p).
Proof.
  revert acc. induction p as [|ent p IH]; intros acc.
  - cbn. rewrite !app_nil_r. now destruct acc.
  - cbn [fold_left flat_map]. rewrite IH, release_range_step_eq. cbn [fst snd].
    now rewrite <- !app_assoc.
Qed.

Lemma release_range_eq p b e :
  release_range p b e
  = if e <? b then (p, []) else (flat_map (rr_keep b e) p, flat_map (rr_rel b e) p).
Proof. unfold release_range. destruct (e <? b); [reflexivity|]. now rewrite release_range_fold. Qed.

(** pairs of a rebuilt entry *)
Lemma pend_pairs_rebuilt tid b (keep : list (N * N)) :
  pend_pairs (rebuilt tid b keep)
  = map (fun pa => (tid, fst pa, snd pa)) keep.
Proof. destruct keep; [reflexivity|]. unfold rebuilt. now rewrite pend_pairs_cons, app_nil_r. Qed.

Lemma pending_ids_rebuilt tid b (keep : list (N * N)) :
  pending_ids (rebuilt tid b keep)
  = map fst keep.
Proof. destruct keep; [reflexivity|]. unfold rebuilt. now rewrite pending_ids_cons, app_nil_r. Qed.

Lemma pend_pairs_single ent : pend_pairs [ent] = map (fun pa => (fst ent, fst pa, snd pa)) (t_ids (snd ent)).
Proof. rewrite pend_pairs_cons. apply app_nil_r. Qed.

Lemma pending_ids_single ent : pending_ids [ent] = map fst (t_ids (snd ent)).
Proof. rewrite pending_ids_cons. apply app_nil_r. Qed.

Lemma pend_pairs_cons1 ent l : pend_pairs (ent :: l) = pend_pairs [ent] ++ pend_pairs l.
Proof. apply (pend_pairs_app [ent] l). Qed.

Lemma pending_ids_cons1 ent l : pending_ids (ent :: l) = pending_ids [ent] ++ pending_ids l.
Proof. apply (pending_ids_app [ent] l). Qed.

Definition both_in (b e : N) (x : N * N * N) : Prop :=
  (b <= fst (fst x) <= e) /\ (b <= snd x <= e).

Lemma in_range_spec b e x : in_range b e x = true <-> b <= x <= e.
Proof. unfold in_range. rewrite andb_true_iff, !N.leb_le. tauto. Qed.

Lemma rr_keep_split b e ent x :
  In x (pend_pairs [ent]) -> In x (pend_pairs (rr_keep b e ent)) \/ both_in b e x.
Proof.
  unfold rr_keep.
  destruct (N.ltb_spec (fst ent) b) as [H1|H1]; cbn [orb]; [now left|].
  destruct (N.ltb_spec e (fst ent)) as [H2|H2]; [now left|].
  destruct (t_lrb (snd ent) =? b); [now left|].
  rewrite pend_pairs_rebuilt, pend_pairs_single. intros H.
  apply in_map_iff in H. destruct H as [pa [<- Hpa]].
  destruct (in_range b e (snd pa)) eqn:E.
  - right. apply in_range_spec in E. unfold both_in. cbn [fst snd]. lia.
  - left. apply in_map_iff. exists pa. split; [reflexivity|]. apply filter_In. now rewrite E.
Qed.

Lemma rr_keep_sub b e ent x :
  In x (pend_pairs (rr_keep b e ent)) -> In x (pend_pairs [ent]).
Proof.
  unfold rr_keep.
  destruct ((fst ent <? b) || (e <? fst ent)); [tauto|].
  destruct (t_lrb (snd ent) =? b); [tauto|].
  rewrite pend_pairs_rebuilt, pend_pairs_single. intros H.
  apply in_map_iff in H. destruct H as [pa [<- Hpa]]. apply filter_In in Hpa.
  apply in_map_iff. exists pa. tauto.
Qed.

Lemma rr_rel_from b e ent pg :
  In pg (rr_rel b e ent) -> exists tid a, In (tid, pg, a) (pend_pairs [ent]) /\ both_in b e (tid, pg, a).
Proof.
  unfold rr_rel.
  destruct (N.ltb_spec (fst ent) b) as [H1|H1]; cbn [orb]; [intros []|].
  destruct (N.ltb_spec e (fst ent)) as [H2|H2]; [intros []|].
  destruct (t_lrb (snd ent) =? b); [intros []|].
  intros H. apply in_map_iff in H. destruct H as [[pg' a] [E H]]. cbn in E. subst pg'.
  apply filter_In in H. destruct H as [Hin Hr]. cbn [snd] in Hr. apply in_range_spec in Hr.
  exists (fst ent), a. split.
  - rewrite pend_pairs_single. apply in_map_iff. exists (pg, a). split; [reflexivity | exact Hin].
  - unfold both_in. cbn [fst snd]. lia.
Qed.

Lemma rr_conserves b e ent :
  Permutation (pending_ids [ent]) (pending_ids (rr_keep b e ent) ++ rr_rel b e ent).
Proof.
  unfold rr_keep, rr_rel.
  destruct ((fst ent <? b) || (e <? fst ent)); [now rewrite app_nil_r|].
  destruct (t_lrb (snd ent) =? b); [now rewrite app_nil_r|].
  rewrite pending_ids_rebuilt, pending_ids_single, <- map_app.
  apply Permutation_map, filter_partition_perm.
Qed.

(** lifted to releaseRange *)
Lemma release_range_pairs_split p b e x :
  In x (pend_pairs p) -> In x (pend_pairs (fst (release_range p b e))) \/ (b <= e /\ both_in b e x).
Proof.
  rewrite release_range_eq. destruct (N.ltb_spec e b) as [Hlt|Hge]; cbn [fst]; [now left|].
  induction p as [|ent p IH]; [intros []|].
  rewrite pend_pairs_cons1, in_app_iff.
  cbn [flat_map]. rewrite pend_pairs_app, in_app_iff. intros [H|H].
  - destruct (rr_keep_split b e ent x H); [left; left; assumption | right; split; assumption].
  - destruct (IH H) as [H'|H']; [left; right; exact H' | right; exact H'].
Qed.

Lemma release_range_pairs_sub p b e x :
  In x (pend_pairs (fst (release_range p b e))) -> In x (pend_pairs p).
Proof.
  rewrite release_range_eq. destruct (e <? b); cbn [fst]; [tauto|].
  induction p as [|ent p IH]; [intros []|].
  rewrite pend_pairs_cons1, in_app_iff.
  cbn [flat_map]. rewrite pend_pairs_app, in_app_iff. intros [H|H].
  - left. now apply rr_keep_sub in H.
  - right. now apply IH.
Qed.

Lemma release_range_freed_from p b e pg :
  In pg (snd (release_range p b e)) ->
  exists tid a, In (tid, pg, a) (pend_pairs p) /\ b <= e /\ both_in b e (tid, pg, a).
Proof.
  rewrite release_range_eq. destruct (N.ltb_spec e b) as [Hlt|Hge]; cbn [snd]; [intros []|].
  induction p as [|ent p IH]; [intros []|].
  rewrite pend_pairs_cons1.
  cbn [flat_map]. rewrite in_app_iff. intros [H|H].
  - destruct (rr_rel_from b e ent pg H) as [tid [a [Hin Hb]]]. exists tid, a.
    rewrite in_app_iff. tauto.
  - destruct (IH H) as [tid [a [Hin Hb]]]. exists tid, a. rewrite in_app_iff. tauto.
Qed.

Lemma release_range_conserves p b e :
  Permutation (pending_ids p) (pending_ids (fst (release_range p b e)) ++ snd (release_range p b e)).
Proof.
  rewrite release_range_eq. destruct (e <? b); cbn [fst snd]; [now rewrite app_nil_r|].
  induction p as [|ent p IH]; [constructor|].
  rewrite pending_ids_cons1.
  cbn [flat_map]. rewrite pending_ids_app.
  rewrite (rr_conserves b e ent), IH at 1.
  rewrite <- !app_assoc. apply Permutation_app_head.
  rewrite !app_assoc. apply Permutation_app_tail, Permutation_app_comm.
Qed.

Lemma release_range_nil b e : release_range [] b e = ([], []).
Proof. unfold release_range. now destruct (e <? b). Qed.

(** * ReleasePendingPages *)

(** the body of the loop over the (sorted) reader ids *)
Definition gstep (g : bool) (acc : list (N * txp) * list N * N) (tid : N) : list (N * txp) * list N * N :=
  let '(pp, ff, mn) := acc in
  let '(pp', f') := if g && (tid =? 0) then (pp, []) else release_range pp mn (wsub1 tid) in
  (pp', ff ++ f', wadd1 tid).

Definition gstep_res (g : bool) (pp : list (N * txp)) (mn tid : N) : list (N * txp) * list N :=
  if g && (tid =? 0) then (pp, []) else release_range pp mn (wsub1 tid).

Lemma gstep_eq g pp ff mn tid :
  gstep g (pp, ff, mn) tid = (fst (gstep_res g pp mn tid), ff ++ snd (gstep_res g pp mn tid), wadd1 tid).
Proof. unfold gstep, gstep_res. now destruct (if g && (tid =? 0) then _ else _). Qed.

Definition min_reader (rs : list N) : N := match rs with [] => MAXU64 | r :: _ => r end.

Definition rp_first (rs : list N) (p : list (N * txp)) : list (N * txp) * list N :=
  if 0 <? min_reader rs then release p (min_reader rs - 1) else (p, []).

Lemma release_pending_gen_eq g rs p :
  release_pending_gen g rs p =
  let r1 := rp_first rs p in
  let r2 := fold_left (gstep g) rs (fst r1, snd r1, min_reader rs) in
  let r3 := release_range (fst (fst r2)) (snd r2) MAXU64 in
  (fst r3, snd (fst r2) ++ snd r3).
Proof.
  unfold release_pending_gen, rp_first. fold (min_reader rs).
  destruct (if 0 <? min_reader rs then _ else _) as [p1 f1]. cbn [fst snd].
  change (fun (acc : list (N * txp) * list N * N) tid =>
       let '(pp, ff, mn) := acc in
       let '(pp', f') := if g && (tid =? 0) then (pp, []) else release_range pp mn (wsub1 tid) in
       (pp', ff ++ f', wadd1 tid)) with (gstep g).
  destruct (fold_left (gstep g) rs (p1, f1, min_reader rs)) as [[p2 f2] m2]. cbn [fst snd].
  now destruct (release_range p2 m2 MAXU64).
Qed.

(** ** conservation (no hypotheses needed) *)

Lemma gstep_res_conserves g pp mn tid :
  Permutation (pending_ids pp) (pending_ids (fst (gstep_res g pp mn tid)) ++ snd (gstep_res g pp mn tid)).
Proof.
  unfold gstep_res. destruct (g && (tid =? 0)); cbn [fst snd]; [now rewrite app_nil_r|].
  apply release_range_conserves.
Qed.

Lemma loop_conserves g rest pp ff mn :
  let res := fold_left (gstep g) rest (pp, ff, mn) in
  Permutation (pending_ids pp ++ ff) (pending_ids (fst (fst res)) ++ snd (fst res)).
Proof.
  revert pp ff mn. induction rest as [|t rest IH]; intros pp ff mn; cbn [fold_left]; [reflexivity|].
  rewrite gstep_eq. cbv zeta in IH |- *. rewrite <- IH.
  rewrite (gstep_res_conserves g pp mn t) at 1.
  rewrite <- !app_assoc. apply Permutation_app_head, Permutation_app_comm.
Qed.

Lemma rp_first_conserves rs p :
  Permutation (pending_ids p) (pending_ids (fst (rp_first rs p)) ++ snd (rp_first rs p)).
Proof.
  unfold rp_first. destruct (0 <? min_reader rs); cbn [fst snd]; [|now rewrite app_nil_r].
  apply release_conserves.
Qed.

Theorem release_pending_gen_conserves_gen g rs p p' freed :
  release_pending_gen g rs p = (p', freed) ->
  Permutation (pending_ids p) (pending_ids p' ++ freed).
Proof.
  rewrite release_pending_gen_eq. cbv zeta. intros H. inversion H; subst; clear H.
  rewrite (rp_first_conserves rs p).
  rewrite (loop_conserves g rs (fst (rp_first rs p)) (snd (rp_first rs p)) (min_reader rs)).
  set (r2 := fold_left (gstep g) rs _).
  rewrite (release_range_conserves (fst (fst r2)) (snd r2) MAXU64) at 1.
  rewrite <- !app_assoc. apply Permutation_app_head, Permutation_app_comm.
Qed.

(** nothing is lost or duplicated *)
Theorem release_pending_gen_conserves rs p p' freed :
  release_pending_gen true rs p = (p', freed) ->
  Permutation (pending_ids p) (pending_ids p' ++ freed).
Proof. apply release_pending_gen_conserves_gen. Qed.

(** ** the remaining pending triples are a subset of the old ones (no hypotheses needed) *)

Lemma gstep_res_sub g pp mn tid x :
  In x (pend_pairs (fst (gstep_res g pp mn tid))) -> In x (pend_pairs pp).
Proof.
  unfold gstep_res. destruct (g && (tid =? 0)); cbn [fst]; [tauto|]. apply release_range_pairs_sub.
Qed.

Lemma loop_sub g rest pp ff mn x :
  In x (pend_pairs (fst (fst (fold_left (gstep g) rest (pp, ff, mn))))) -> In x (pend_pairs pp).
Proof.
  revert pp ff mn. induction rest as [|t rest IH]; intros pp ff mn; cbn [fold_left]; [tauto|].
  rewrite gstep_eq. intros H. apply IH in H. now apply gstep_res_sub in H.
Qed.

Lemma rp_first_sub rs p x : In x (pend_pairs (fst (rp_first rs p))) -> In x (pend_pairs p).
Proof.
  unfold rp_first. destruct (0 <? min_reader rs); cbn [fst]; [|tauto]. apply release_pairs_sub.
Qed.

Theorem release_pending_gen_sub g rs p p' freed x :
  release_pending_gen g rs p = (p', freed) -> In x (pend_pairs p') -> In x (pend_pairs p).
Proof.
  rewrite release_pending_gen_eq. cbv zeta. intros H. inversion H; subst; clear H. intros Hx.
  apply release_range_pairs_sub, loop_sub, rp_first_sub in Hx. exact Hx.
Qed.

(** ** safety *)

Lemma both_in_unneeded mn t x r :
  t <> 0 -> both_in mn (t - 1) x -> r < mn \/ t <= r -> needs r (fst (fst x)) (snd x) = false.
Proof.
  unfold both_in, needs. intros Ht [[H1 H2] [H3 H4]] Hr. apply andb_false_iff.
  destruct Hr as [Hr|Hr]; [left; apply N.leb_gt; lia | right; apply N.ltb_ge; lia].
Qed.

Lemma wsub1_pos t : t <> 0 -> wsub1 t = t - 1.
Proof. unfold wsub1. now destruct (N.eqb_spec t 0). Qed.

Lemma wadd1_lt t : t < MAXU64 -> wadd1 t = t + 1.
Proof. unfold wadd1. destruct (N.eqb_spec t MAXU64); [lia | reflexivity]. Qed.

Lemma gstep_res_split pp mn t x :
  In x (pend_pairs pp) ->
  In x (pend_pairs (fst (gstep_res true pp mn t))) \/ (t <> 0 /\ both_in mn (t - 1) x).
Proof.
  unfold gstep_res. cbn [andb]. destruct (N.eqb_spec t 0) as [E|E]; cbn [fst]; [now left|].
  rewrite (wsub1_pos t E). intros H.
  destruct (release_range_pairs_split pp mn (t - 1) x H) as [H'|[_ H']]; [now left | now right].
Qed.

Lemma gstep_res_freed pp mn t pg :
  In pg (snd (gstep_res true pp mn t)) ->
  exists tid a, In (tid, pg, a) (pend_pairs pp) /\ t <> 0 /\ both_in mn (t - 1) (tid, pg, a).
Proof.
  unfold gstep_res. cbn [andb]. destruct (N.eqb_spec t 0) as [E|E]; cbn [snd]; [intros []|].
  rewrite (wsub1_pos t E). intros H.
  destruct (release_range_freed_from pp mn (t - 1) pg H) as [tid [a [H1 [_ H2]]]].
  exists tid, a. tauto.
Qed.

Lemma weaken_cond mn t rest r : mn <= t + 1 -> r < mn \/ In r (t :: rest) -> r < t + 1 \/ In r rest.
Proof. intros Hm [H|[->|H]]; [left; lia | left; lia | now right]. Qed.

  Lemma loop_mn rest :
    StronglySorted N.le rest -> (forall r, In r rest -> r < MAXU64) ->
    forall pp ff mn, (forall r, In r rest -> mn <= r + 1) ->
    let res := fold_left (gstep true) rest (pp, ff, mn) in
    mn <= snd res /\ forall r, In r rest -> r < snd res.
  Proof.
    induction rest as [|t rest IH]; intros Hs Hmax pp ff mn Hmn; cbn [fold_left].
    - cbn [snd]. split; [lia | intros r []].
    - rewrite gstep_eq. inversion Hs as [|? ? Hs' Hall]; subst.
      assert (Ht : t < MAXU64) by (apply Hmax; now left).
      rewrite (wadd1_lt t Ht).
      rewrite Forall_forall in Hall.
      destruct (IH Hs' (fun r H => Hmax r (or_intror H))
                  (fst (gstep_res true pp mn t)) (ff ++ snd (gstep_res true pp mn t)) (t + 1)) as [I1 I2].
      { intros r Hr. specialize (Hall r Hr). lia. }
      specialize (Hmn t (or_introl eq_refl)). split; [lia|].
      intros r [<-|Hr]; [lia | now apply I2].
  Qed.

  Lemma loop_safe rest :
    StronglySorted N.le rest -> (forall r, In r rest -> r < MAXU64) ->
    forall pp ff mn, (forall r, In r rest -> mn <= r + 1) ->
    forall x, In x (pend_pairs pp) ->
    In x (pend_pairs (fst (fst (fold_left (gstep true) rest (pp, ff, mn)))))
    \/ (forall r, r < mn \/ In r rest -> needs r (fst (fst x)) (snd x) = false).
  Proof.
    induction rest as [|t rest IH]; intros Hs Hmax pp ff mn Hmn x Hx; cbn [fold_left].
    - now left.
    - rewrite gstep_eq. inversion Hs as [|? ? Hs' Hall]; subst.
      assert (Ht : t < MAXU64) by (apply Hmax; now left).
      rewrite (wadd1_lt t Ht). rewrite Forall_forall in Hall.
      pose proof (Hmn t (or_introl eq_refl)) as Hmt.
      destruct (gstep_res_split pp mn t x Hx) as [H1|[Ht0 Hb]].
      + destruct (IH Hs' (fun r H => Hmax r (or_intror H))
                  (fst (gstep_res true pp mn t)) (ff ++ snd (gstep_res true pp mn t)) (t + 1)) with (x := x)
          as [I|I].
        { intros r Hr. specialize (Hall r Hr). lia. }
        { exact H1. }
        * now left.
        * right. intros r Hr. apply I. now apply (weaken_cond mn).
      + right. intros r Hr. apply (both_in_unneeded mn t); [exact Ht0 | exact Hb |].
        destruct Hr as [Hr|[<-|Hr]]; [now left | right; lia | right; now apply Hall].
  Qed.

  Lemma loop_freed rest :
    StronglySorted N.le rest -> (forall r, In r rest -> r < MAXU64) ->
    forall pp ff mn, (forall r, In r rest -> mn <= r + 1) ->
    forall pg, In pg (snd (fst (fold_left (gstep true) rest (pp, ff, mn)))) ->
    In pg ff \/
    exists tid a, In (tid, pg, a) (pend_pairs pp) /\
                  forall r, r < mn \/ In r rest -> needs r tid a = false.
  Proof.
    induction rest as [|t rest IH]; intros Hs Hmax pp ff mn Hmn pg; cbn [fold_left].
    - cbn [fst snd]. now left.
    - rewrite gstep_eq. inversion Hs as [|? ? Hs' Hall]; subst.
      assert (Ht : t < MAXU64) by (apply Hmax; now left).
      rewrite (wadd1_lt t Ht). rewrite Forall_forall in Hall.
      pose proof (Hmn t (or_introl eq_refl)) as Hmt.
      intros H.
      apply (IH Hs' (fun r H => Hmax r (or_intror H))) in H.
      2:{ intros r Hr. specialize (Hall r Hr). lia. }
      destruct H as [H|[tid [a [H1 H2]]]].
      + apply in_app_iff in H. destruct H as [H|H]; [now left|]. right.
        destruct (gstep_res_freed pp mn t pg H) as [tid [a [H1 [Ht0 Hb]]]].
        exists tid, a. split; [exact H1|]. intros r Hr.
        apply (both_in_unneeded mn t (tid, pg, a)); [exact Ht0 | exact Hb |].
        destruct Hr as [Hr|[<-|Hr]]; [now left | right; lia | right; now apply Hall].
      + right. exists tid, a. split; [now apply gstep_res_sub in H1|].
        intros r Hr. apply H2. now apply (weaken_cond mn).
  Qed.

Lemma min_reader_le rs : StronglySorted N.le rs -> forall r, In r rs -> min_reader rs <= r.
Proof.
  intros Hs r Hr. destruct rs as [|t rs]; [destruct Hr|]. cbn [min_reader].
  inversion Hs as [|? ? _ Hall]; subst. rewrite Forall_forall in Hall.
  destruct Hr as [<-|Hr]; [lia | now apply Hall].
Qed.

Lemma rp_first_split rs p x :
  StronglySorted N.le rs -> In x (pend_pairs p) ->
  In x (pend_pairs (fst (rp_first rs p)))
  \/ (forall r, In r rs -> needs r (fst (fst x)) (snd x) = false).
Proof.
  intros Hs Hx. unfold rp_first. destruct (N.ltb_spec 0 (min_reader rs)) as [Hpos|H0]; cbn [fst]; [|now left].
  destruct (release_pairs_split p (min_reader rs - 1) x Hx) as [H|H]; [now left|]. right.
  intros r Hr. pose proof (min_reader_le rs Hs r Hr). unfold needs.
  apply andb_false_iff. right. apply N.ltb_ge. lia.
Qed.

Lemma rp_first_freed rs p pg :
  StronglySorted N.le rs -> In pg (snd (rp_first rs p)) ->
  exists tid a, In (tid, pg, a) (pend_pairs p) /\ forall r, In r rs -> needs r tid a = false.
Proof.
  intros Hs. unfold rp_first. destruct (N.ltb_spec 0 (min_reader rs)) as [Hpos|H0]; cbn [snd]; [|intros []].
  intros H. destruct (release_freed_from p _ pg H) as [tid [a [H1 H2]]]. exists tid, a. split; [exact H1|].
  intros r Hr. pose proof (min_reader_le rs Hs r Hr). unfold needs.
  apply andb_false_iff. right. apply N.ltb_ge. lia.
Qed.

Lemma final_unneeded m2 x r : both_in m2 MAXU64 x -> r < m2 -> needs r (fst (fst x)) (snd x) = false.
Proof.
  unfold both_in, needs. intros [_ [H _]] Hr. apply andb_false_iff. left. apply N.leb_gt. lia.
Qed.

(** Every pending triple either stays pending or is needed by no reader. *)
Theorem release_pending_gen_split rs p p' freed :
  Sorted N.le rs -> (forall r, In r rs -> r < MAXU64) ->
  release_pending_gen true rs p = (p', freed) ->
  forall x, In x (pend_pairs p) ->
  In x (pend_pairs p') \/ forall r, In r rs -> needs r (fst (fst x)) (snd x) = false.
Proof.
  intros Hsorted Hmax. rewrite release_pending_gen_eq. cbv zeta. intros H. inversion H; subst; clear H.
  assert (Hs : StronglySorted N.le rs).
  { apply Sorted_StronglySorted; [|exact Hsorted]. intros a b c; apply N.le_trans. }
  assert (Hmn : forall r, In r rs -> min_reader rs <= r + 1).
  { intros r Hr. pose proof (min_reader_le rs Hs r Hr). lia. }
  intros x Hx.
  destruct (rp_first_split rs p x Hs Hx) as [H1|H1]; [|now right].
  set (p1 := fst (rp_first rs p)) in *. set (f1 := snd (rp_first rs p)).
  destruct (loop_safe rs Hs Hmax p1 f1 (min_reader rs) Hmn x H1) as [H2|H2].
  2:{ right. intros r Hr. apply H2. now right. }
  destruct (loop_mn rs Hs Hmax p1 f1 (min_reader rs) Hmn) as [_ Hm2].
  set (r2 := fold_left (gstep true) rs (p1, f1, min_reader rs)) in *.
  destruct (release_range_pairs_split (fst (fst r2)) (snd r2) MAXU64 x H2) as [H3|[_ H3]]; [now left|].
  right. intros r Hr. apply (final_unneeded (snd r2)); [exact H3 | now apply Hm2].
Qed.

(** SAFETY (triple form): a pending page that is no longer pending afterwards is needed by no reader.
    Only the reader ids need to be < MAXU64 (a reader id MAXU64 would make [wadd1] wrap to 0). *)
Theorem release_pending_gen_safe rs p p' freed :
  Sorted N.le rs -> (forall r, In r rs -> r < MAXU64) ->
  release_pending_gen true rs p = (p', freed) ->
  forall tid pg a, In (tid, pg, a) (pend_pairs p) -> ~ In (tid, pg, a) (pend_pairs p') ->
  forall r, In r rs -> needs r tid a = false.
Proof.
  intros Hs Hmax H tid pg a Hin Hnot.
  destruct (release_pending_gen_split rs p p' freed Hs Hmax H (tid, pg, a) Hin) as [H'|H']; [contradiction|].
  exact H'.
Qed.

Corollary release_pending_gen_safe_released rs p p' freed :
  Sorted N.le rs -> (forall r, In r rs -> r < MAXU64) ->
  release_pending_gen true rs p = (p', freed) ->
  forall x, released p p' x -> forall r, In r rs -> needs r (fst (fst x)) (snd x) = false.
Proof.
  intros Hs Hmax H [[tid pg] a] [Hin Hnot].
  exact (release_pending_gen_safe rs p p' freed Hs Hmax H tid pg a Hin Hnot).
Qed.

(** SAFETY (freed-list form): every page id handed to the free list comes from a pending triple
    that no reader needs. *)
Theorem release_pending_gen_safe_freed rs p p' freed :
  Sorted N.le rs -> (forall r, In r rs -> r < MAXU64) ->
  release_pending_gen true rs p = (p', freed) ->
  forall pg, In pg freed ->
  exists tid a, In (tid, pg, a) (pend_pairs p) /\ forall r, In r rs -> needs r tid a = false.
Proof.
  intros Hsorted Hmax. rewrite release_pending_gen_eq. cbv zeta. intros H. inversion H; subst; clear H.
  assert (Hs : StronglySorted N.le rs).
  { apply Sorted_StronglySorted; [|exact Hsorted]. intros a b c; apply N.le_trans. }
  assert (Hmn : forall r, In r rs -> min_reader rs <= r + 1).
  { intros r Hr. pose proof (min_reader_le rs Hs r Hr). lia. }
  intros pg Hpg.
  set (p1 := fst (rp_first rs p)) in *. set (f1 := snd (rp_first rs p)) in *.
  destruct (loop_mn rs Hs Hmax p1 f1 (min_reader rs) Hmn) as [_ Hm2].
  pose proof (loop_freed rs Hs Hmax p1 f1 (min_reader rs) Hmn pg) as Hloop.
  pose proof (fun x => loop_sub true rs p1 f1 (min_reader rs) x) as Hsub.
  set (r2 := fold_left (gstep true) rs (p1, f1, min_reader rs)) in *.
  apply in_app_iff in Hpg. destruct Hpg as [Hpg|Hpg].
  - destruct (Hloop Hpg) as [H|[tid [a [H1 H2]]]].
    + now apply rp_first_freed.
    + exists tid, a. split; [now apply rp_first_sub in H1|]. intros r Hr. apply H2. now right.
  - destruct (release_range_freed_from _ _ _ pg Hpg) as [tid [a [H1 [_ H2]]]].
    exists tid, a. split; [now apply Hsub, rp_first_sub in H1|].
    intros r Hr. apply (final_unneeded (snd r2) (tid, pg, a)); [exact H2 | now apply Hm2].
Qed.

(** ** completeness *)

Lemma release_pairs_gt p txid x :
  In x (pend_pairs (fst (release p txid))) -> txid < fst (fst x).
Proof.
  rewrite release_fst. induction p as [|e p IH]; [intros []|].
  cbn [filter]. destruct (N.leb_spec (fst e) txid) as [Hle|Hgt]; cbn [negb]; [exact IH|].
  rewrite pend_pairs_cons, in_app_iff. intros [H|H]; [|now apply IH].
  apply in_map_iff in H. destruct H as [pa [<- _]]. exact Hgt.
Qed.

(** Every pending list of a transaction older than all readers is released entirely (whatever
    [t_lrb] says; guard or no guard). *)
Theorem release_pending_gen_below_min g rs p p' freed x :
  release_pending_gen g rs p = (p', freed) ->
  fst (fst x) < min_reader rs -> ~ In x (pend_pairs p').
Proof.
  rewrite release_pending_gen_eq. cbv zeta. intros H Hlt Hin. inversion H; subst; clear H.
  apply release_range_pairs_sub, loop_sub in Hin. revert Hin. unfold rp_first.
  destruct (N.ltb_spec 0 (min_reader rs)) as [Hpos|H0]; cbn [fst]; [|lia].
  intros Hin. apply release_pairs_gt in Hin. lia.
Qed.

(** With no readers everything is released.  The only hypothesis needed is that transaction ids
    are < MAXU64: [release p (MAXU64-1)] then takes every entry, and [t_lrb] plays no role. *)
Theorem release_pending_gen_all_without_readers p p' freed :
  (forall e, In e p -> fst e < MAXU64) ->
  release_pending_gen true [] p = (p', freed) -> p' = [].
Proof.
  intros Hmax. rewrite release_pending_gen_eq. cbv zeta. cbn [fold_left fst snd].
  unfold rp_first. cbn [min_reader]. change (0 <? MAXU64) with true. cbv iota.
  rewrite release_all.
  - rewrite release_range_nil. cbn [fst snd]. intros H. now inversion H.
  - intros e He. specialize (Hmax e He). lia.
Qed.

Corollary release_pending_gen_all_without_readers_freed p p' freed :
  (forall e, In e p -> fst e < MAXU64) ->
  release_pending_gen true [] p = (p', freed) -> p' = [] /\ Permutation (pending_ids p) freed.
Proof.
  intros Hmax H. pose proof (release_pending_gen_all_without_readers p p' freed Hmax H) as ->.
  split; [reflexivity|]. now apply release_pending_gen_conserves in H.
Qed.

(** The hypothesis on the transaction ids is needed: an entry of transaction MAXU64 stays. *)
Example all_without_readers_needs_bound :
  release_pending_gen true [] [(MAXU64, {| t_ids := [(5, 0)]; t_lrb := 0 |})]
  = ([(MAXU64, {| t_ids := [(5, 0)]; t_lrb := MAXU64 |})], []).
Proof. vm_compute. reflexivity. Qed.

(** Remarks on what completeness does NOT hold in general (conservative behaviour, not unsafe):
    (1) a page freed by a transaction whose id EQUALS a reader id is kept although that reader does not
        need it (the ranges are the open gaps between reader ids);
    (2) in an arbitrary model state an entry whose [t_lrb] happens to equal the begin of its gap is
        skipped although nobody needs its pages. *)
Example conservative_tid_eq_reader :
  release_pending_gen true [5] [(5, {| t_ids := [(9, 5)]; t_lrb := 0 |})]
    = ([(5, {| t_ids := [(9, 5)]; t_lrb := 0 |})], [])
  /\ needs 5 5 5 = false.
Proof. vm_compute. split; reflexivity. Qed.

Example lrb_blocks_release :
  release_pending_gen true [3] [(6, {| t_ids := [(7, 5)]; t_lrb := 4 |})]
    = ([(6, {| t_ids := [(7, 5)]; t_lrb := 4 |})], [])
  /\ needs 3 6 5 = false
  /\ release_pending_gen true [3] [(6, {| t_ids := [(7, 5)]; t_lrb := 0 |})] = ([], [7]).
Proof. vm_compute. repeat split; reflexivity. Qed.

(** ** key uniqueness of the pending map is preserved *)

Lemma keys_unique_filter {A} (f : N * A -> bool) (l : list (N * A)) :
  keys_unique l -> keys_unique (filter f l).
Proof.
  unfold keys_unique. induction l as [|e l IH]; [tauto|]. cbn [map filter]. intros H.
  inversion H as [|? ? Hn Hu]; subst. destruct (f e); [|now apply IH].
  cbn [map]. constructor; [|now apply IH]. intros Hin. apply Hn.
  apply in_map_iff in Hin. destruct Hin as [e' [E Hin]]. apply filter_In in Hin.
  apply in_map_iff. exists e'. tauto.
Qed.

Lemma rr_keep_shape b e ent : rr_keep b e ent = [] \/ exists y, rr_keep b e ent = [(fst ent, y)].
Proof.
  unfold rr_keep, rebuilt.
  destruct ((fst ent <? b) || (e <? fst ent)); [right; exists (snd ent); now destruct ent|].
  destruct (t_lrb (snd ent) =? b); [right; exists (snd ent); now destruct ent|].
  destruct (filter _ _); [now left | right; eauto].
Qed.

Lemma rr_keep_keys_in b e p k :
  In k (map fst (flat_map (rr_keep b e) p)) -> In k (map fst p).
Proof.
  induction p as [|ent p IH]; [tauto|]. cbn [flat_map map]. rewrite map_app, in_app_iff.
  intros [H|H]; [|right; now apply IH].
  destruct (rr_keep_shape b e ent) as [E|[y E]]; rewrite E in H; [destruct H|].
  destruct H as [<-|[]]. now left.
Qed.

Lemma release_range_keys_unique p b e :
  keys_unique p -> keys_unique (fst (release_range p b e)).
Proof.
  rewrite release_range_eq. destruct (e <? b); cbn [fst]; [tauto|].
  unfold keys_unique. induction p as [|ent p IH]; [tauto|]. cbn [flat_map map]. intros H.
  inversion H as [|? ? Hn Hu]; subst. rewrite map_app.
  destruct (rr_keep_shape b e ent) as [E|[y E]]; rewrite E; cbn [map app]; [now apply IH|].
  constructor; [|now apply IH]. intros Hin. apply Hn. now apply rr_keep_keys_in in Hin.
Qed.

Lemma loop_keys_unique g rest pp ff mn :
  keys_unique pp -> keys_unique (fst (fst (fold_left (gstep g) rest (pp, ff, mn)))).
Proof.
  revert pp ff mn. induction rest as [|t rest IH]; intros pp ff mn H; cbn [fold_left]; [exact H|].
  rewrite gstep_eq. apply IH. unfold gstep_res. destruct (g && (t =? 0)); cbn [fst]; [exact H|].
  now apply release_range_keys_unique.
Qed.

Theorem release_pending_gen_keys_unique g rs p p' freed :
  release_pending_gen g rs p = (p', freed) -> keys_unique p -> keys_unique p'.
Proof.
  rewrite release_pending_gen_eq. cbv zeta. intros H Hu. inversion H; subst; clear H.
  apply release_range_keys_unique, loop_keys_unique. unfold rp_first.
  destruct (0 <? min_reader rs); cbn [fst]; [|exact Hu]. rewrite release_fst.
  now apply keys_unique_filter.
Qed.

(** * ReleasePendingPages on the whole free list *)

Lemma sortN_sorted_le l : Sorted N.le (sortN l).
Proof.
  pose proof (sortN_sorted l) as H. induction H as [|a l' Hs IH Hh]; constructor; [exact IH|].
  destruct Hh; constructor. now apply N.leb_le.
Qed.

Lemma sortN_nil : sortN [] = [].
Proof. reflexivity. Qed.

Theorem release_pending_pages_spec s :
  let s' := release_pending_pages s in
  exists freed,
    release_pending_gen true (sortN (readers s)) (pending s) = (pending s', freed)
    /\ readers s' = sortN (readers s)
    /\ allocs s' = allocs s
    (* conservation *)
    /\ Permutation (free s') (free s ++ freed)
    /\ Permutation (pending_ids (pending s)) (pending_ids (pending s') ++ freed)
    /\ Permutation (cache s') (cache s)
    /\ (forall x, In x (pend_pairs (pending s')) -> In x (pend_pairs (pending s)))
    /\ (keys_unique (pending s) -> keys_unique (pending s'))
    (* safety *)
    /\ ((forall r, In r (readers s) -> r < MAXU64) ->
        (forall tid pg a, In (tid, pg, a) (pend_pairs (pending s)) ->
                          ~ In (tid, pg, a) (pend_pairs (pending s')) ->
                          forall r, In r (readers s) -> needs r tid a = false)
        /\ (forall pg, In pg freed ->
              exists tid a, In (tid, pg, a) (pend_pairs (pending s))
                            /\ forall r, In r (readers s) -> needs r tid a = false))
    (* completeness *)
    /\ (readers s = [] -> (forall e, In e (pending s) -> fst e < MAXU64) -> pending s' = []).
Proof.
  unfold release_pending_pages.
  destruct (release_pending_gen true (sortN (readers s)) (pending s)) as [p' freed] eqn:E.
  cbn [free pending allocs readers]. exists freed.
  pose proof (release_pending_gen_conserves _ _ _ _ E) as Hc.
  assert (Hfree : Permutation (mergeN (free s) (sortN freed)) (free s ++ freed)).
  { rewrite <- mergeN_perm. apply Permutation_app_head. symmetry. apply sortN_perm. }
  split; [reflexivity|]. split; [reflexivity|]. split; [reflexivity|].
  split; [exact Hfree|]. split; [exact Hc|].
  split.
  { unfold cache. cbn [free pending]. rewrite Hfree, Hc. rewrite <- !app_assoc.
    apply Permutation_app_head, Permutation_app_comm. }
  split; [intros x; apply (release_pending_gen_sub _ _ _ _ _ x E)|].
  split; [apply (release_pending_gen_keys_unique _ _ _ _ _ E)|].
  split.
  - intros Hmax.
    assert (Hmax' : forall r, In r (sortN (readers s)) -> r < MAXU64).
    { intros r Hr. apply Hmax. now apply sortN_in. }
    split.
    + intros tid pg a Hin Hnot r Hr.
      apply (release_pending_gen_safe _ _ _ _ (sortN_sorted_le _) Hmax' E tid pg a Hin Hnot).
      now apply sortN_in.
    + intros pg Hpg.
      destruct (release_pending_gen_safe_freed _ _ _ _ (sortN_sorted_le _) Hmax' E pg Hpg) as [tid [a [H1 H2]]].
      exists tid, a. split; [exact H1|]. intros r Hr. apply H2. now apply sortN_in.
  - intros Hr Hmax. rewrite Hr, sortN_nil in E.
    apply (release_pending_gen_all_without_readers _ _ _ Hmax E).
Qed.

(** The free list stays sorted. *)
Theorem release_pending_pages_free_sorted s :
  Sorted (fun x y => is_true (x <=? y)) (free s) ->
  Sorted (fun x y => is_true (x <=? y)) (free (release_pending_pages s)).
Proof.
  intros H. unfold release_pending_pages.
  destruct (release_pending_gen true (sortN (readers s)) (pending s)) as [p' freed].
  cbn [free]. apply Sorted_LocallySorted_iff. apply NSort.Sorted_merge.
  - now apply Sorted_LocallySorted_iff.
  - apply Sorted_LocallySorted_iff, sortN_sorted.
Qed.

(** A page that ReleasePendingPages adds to the free list was pending and is needed by no reader. *)
Corollary release_pending_pages_new_free s pg :
  (forall r, In r (readers s) -> r < MAXU64) ->
  In pg (free (release_pending_pages s)) ->
  In pg (free s) \/
  exists tid a, In (tid, pg, a) (pend_pairs (pending s))
                /\ forall r, In r (readers s) -> needs r tid a = false.
Proof.
  intros Hmax Hin.
  destruct (release_pending_pages_spec s) as [freed [_ [_ [_ [Hf [_ [_ [_ [_ [Hsafe _]]]]]]]]]].
  apply (Permutation_in _ Hf), in_app_iff in Hin. destruct Hin as [Hin|Hin]; [now left|].
  right. now apply (proj2 (Hsafe Hmax)).
Qed.

(** * The defect of the pinned code (D10): without the guard for reader id 0, [uint64(0-1)] makes the
    range [0, MAXU64], and a page that reader 0 needs is released.  Entries with [t_lrb = 0] (the
    initial value) are skipped by the lastReleaseBegin optimisation, which is why it takes a second
    round to show. *)
Example pinned_release_unsafe_direct :
  let p := [(3, {| t_ids := [(5, 0)]; t_lrb := 2 |})] in
  In (3, 5, 0) (pend_pairs p)
  /\ needs 0 3 0 = true
  /\ release_pending_gen false [0] p = ([], [5])
  /\ release_pending_gen true [0] p = ([(3, {| t_ids := [(5, 0)]; t_lrb := 1 |})], []).
Proof. cbv zeta. split; [left; reflexivity|]. vm_compute. repeat split; reflexivity. Qed.

(** The same from a state with initial [t_lrb = 0]: a first ReleasePendingPages with reader 1 releases
    page 6 (allocated by 2, freed by 3) and sets t_lrb := 2; then reader 0 is the only reader. *)
Example pinned_release_unsafe_two_rounds :
  let p0 := [(3, {| t_ids := [(5, 0); (6, 2)]; t_lrb := 0 |})] in
  let p1 := [(3, {| t_ids := [(5, 0)]; t_lrb := 2 |})] in
  release_pending_gen false [1] p0 = (p1, [6])
  /\ release_pending_gen false [0] p1 = ([], [5])
  /\ needs 0 3 0 = true
  /\ release_pending_gen true [1] p0 = (p1, [6])
  /\ release_pending_gen true [0] p1 = ([(3, {| t_ids := [(5, 0)]; t_lrb := 1 |})], []).
Proof. vm_compute. repeat split; reflexivity. Qed.

(** Hence the safety theorem is false for [release_pending_gen false]. *)
Theorem release_pending_gen_unguarded_unsafe :
  ~ (forall rs p p' freed,
       Sorted N.le rs -> (forall r, In r rs -> r < MAXU64) ->
       release_pending_gen false rs p = (p', freed) ->
       forall tid pg a, In (tid, pg, a) (pend_pairs p) -> ~ In (tid, pg, a) (pend_pairs p') ->
       forall r, In r rs -> needs r tid a = false).
Proof.
  intros H.
  specialize (H [0] [(3, {| t_ids := [(5, 0)]; t_lrb := 2 |})] [] [5]).
  assert (Hs : Sorted N.le [0]) by (repeat constructor).
  assert (Hm : forall r, In r [0] -> r < MAXU64) by (intros r [<-|[]]; reflexivity).
  specialize (H Hs Hm eq_refl 3 5 0 (or_introl eq_refl) (fun f => f) 0 (or_introl eq_refl)).
  discriminate H.
Qed.

(** With the first-run state of the task description ([t_lrb = 0] everywhere) nothing shows: *)
Example pinned_release_hidden_by_lrb :
  let p := [(1, {| t_ids := [(5, 0)]; t_lrb := 0 |}); (2, {| t_ids := [(6, 0)]; t_lrb := 0 |})] in
  release_pending_gen false [0] p = release_pending_gen true [0] p.
Proof. vm_compute. reflexivity. Qed.

(** * Completeness in the presence of readers: a pending page whose freeing and allocating
    transaction lie in the same gap between reader ids is released, provided the entry is not
    skipped by the lastReleaseBegin optimisation.  (Neither sortedness of the reader list nor a
    bound on the reader ids is needed for this direction.) *)

Lemma release_freed_in p txid ent pg a :
  In ent p -> fst ent <= txid -> In (pg, a) (t_ids (snd ent)) -> In pg (snd (release p txid)).
Proof.
  intros Hin Hle Hpa. unfold release. cbn [snd]. apply in_flat_map. exists ent. split; [exact Hin|].
  apply N.leb_le in Hle. rewrite Hle. apply in_map_iff. exists (pg, a). split; [reflexivity | exact Hpa].
Qed.

Lemma release_keeps p txid ent : In ent p -> txid < fst ent -> In ent (fst (release p txid)).
Proof.
  intros Hin Hlt. rewrite release_fst. apply filter_In. split; [exact Hin|].
  apply negb_true_iff, N.leb_gt. exact Hlt.
Qed.

Lemma release_range_keeps p b e ent :
  In ent p -> e < fst ent -> In ent (fst (release_range p b e)).
Proof.
  intros Hin Hlt. rewrite release_range_eq. destruct (e <? b); cbn [fst]; [exact Hin|].
  apply in_flat_map. exists ent. split; [exact Hin|]. unfold rr_keep.
  apply N.ltb_lt in Hlt. rewrite Hlt, orb_true_r. now left.
Qed.

Lemma release_range_frees p b e ent pg a :
  In ent p -> b <= fst ent <= e -> t_lrb (snd ent) <> b ->
  In (pg, a) (t_ids (snd ent)) -> b <= a <= e -> In pg (snd (release_range p b e)).
Proof.
  intros Hin Ht Hl Hpa Ha. rewrite release_range_eq.
  destruct (N.ltb_spec e b) as [Hlt|Hge]; [lia|]. cbn [snd].
  apply in_flat_map. exists ent. split; [exact Hin|]. unfold rr_rel.
  destruct (N.ltb_spec (fst ent) b); [lia|]. destruct (N.ltb_spec e (fst ent)); [lia|]. cbn [orb].
  destruct (N.eqb_spec (t_lrb (snd ent)) b); [contradiction|].
  apply in_map_iff. exists (pg, a). split; [reflexivity|]. apply filter_In. split; [exact Hpa|].
  cbn [snd]. now apply in_range_spec.
Qed.

Lemma loop_freed_mono g rest pp ff mn pg :
  In pg ff -> In pg (snd (fst (fold_left (gstep g) rest (pp, ff, mn)))).
Proof.
  revert pp ff mn. induction rest as [|t rest IH]; intros pp ff mn H; cbn [fold_left]; [exact H|].
  rewrite gstep_eq. apply IH. apply in_app_iff. now left.
Qed.

Lemma loop_gap ent pg a rest :
  In (pg, a) (t_ids (snd ent)) -> fst ent <= MAXU64 ->
  (forall r, In r rest -> (r < fst ent /\ r < a) \/ (fst ent < r /\ a < r)) ->
  (forall r, In r rest -> t_lrb (snd ent) <> r + 1) ->
  forall pp ff mn,
  In ent pp -> mn <= fst ent -> mn <= a -> t_lrb (snd ent) <> mn ->
  let res := fold_left (gstep true) rest (pp, ff, mn) in
  In pg (snd (fst res))
  \/ (In ent (fst (fst res)) /\ snd res <= fst ent /\ snd res <= a /\ t_lrb (snd ent) <> snd res).
Proof.
  intros Hpa Hmax. induction rest as [|t rest IH]; intros Hgap Hlrb pp ff mn Hin Hm1 Hm2 Hl; cbn [fold_left].
  - right. cbn [fst snd]. tauto.
  - rewrite gstep_eq. cbv zeta in IH |- *.
    assert (Hgap' : forall r, In r rest -> (r < fst ent /\ r < a) \/ (fst ent < r /\ a < r))
      by (intros r Hr; apply Hgap; now right).
    assert (Hlrb' : forall r, In r rest -> t_lrb (snd ent) <> r + 1)
      by (intros r Hr; apply Hlrb; now right).
    destruct (Hgap t (or_introl eq_refl)) as [[Hb1 Hb2]|[Ha1 Ha2]].
    + (* reader below: the entry is untouched *)
      rewrite (wadd1_lt t) by lia.
      apply (IH Hgap' Hlrb'); [| lia | lia | apply Hlrb; now left].
      unfold gstep_res. cbn [andb]. destruct (N.eqb_spec t 0) as [E|E]; cbn [fst]; [exact Hin|].
      apply release_range_keeps; [exact Hin|]. rewrite (wsub1_pos t E). lia.
    + (* first reader above: the page is released here *)
      left. apply loop_freed_mono. apply in_app_iff. right.
      unfold gstep_res. cbn [andb]. destruct (N.eqb_spec t 0) as [E|E]; [lia|].
      rewrite (wsub1_pos t E).
      apply (release_range_frees pp mn (t - 1) ent pg a); [exact Hin | lia | exact Hl | exact Hpa | lia].
Qed.

Theorem release_pending_gen_gap_complete rs p p' freed ent pg a :
  release_pending_gen true rs p = (p', freed) ->
  In ent p -> In (pg, a) (t_ids (snd ent)) -> fst ent < MAXU64 -> a <= MAXU64 ->
  (forall r, In r rs -> (r < fst ent /\ r < a) \/ (fst ent < r /\ a < r)) ->
  (forall r, In r rs -> t_lrb (snd ent) <> r + 1) ->
  In pg freed.
Proof.
  rewrite release_pending_gen_eq. cbv zeta. intros H Hin Hpa Hmax Hamax Hgap Hlrb.
  inversion H; subst; clear H. apply in_app_iff.
  (* below the smallest reader: released by release(minid-1) *)
  assert (Hbelow : fst ent < min_reader rs -> In pg (snd (rp_first rs p))).
  { intros Hlt. unfold rp_first. destruct (N.ltb_spec 0 (min_reader rs)); [|lia]. cbn [snd].
    apply (release_freed_in p _ ent pg a); [exact Hin | lia | exact Hpa]. }
  destruct rs as [|t rs].
  - left. cbn [fold_left fst snd]. apply Hbelow. exact Hmax.
  - destruct (Hgap t (or_introl eq_refl)) as [[Hb1 Hb2]|[Ha1 Ha2]].
    2:{ left. apply loop_freed_mono, Hbelow. exact Ha1. }
    (* the first reader is below: the entry survives release(minid-1) and the (empty) first range *)
    cbn [fold_left]. rewrite gstep_eq. rewrite (wadd1_lt t) by lia.
    set (p1 := fst (rp_first (t :: rs) p)). set (f1 := snd (rp_first (t :: rs) p)).
    assert (Hin1 : In ent p1).
    { unfold p1, rp_first. cbn [min_reader]. destruct (0 <? t); cbn [fst]; [|exact Hin].
      apply release_keeps; [exact Hin | lia]. }
    assert (Hin2 : In ent (fst (gstep_res true p1 t t))).
    { unfold gstep_res. cbn [andb]. destruct (N.eqb_spec t 0) as [E|E]; cbn [fst]; [exact Hin1|].
      apply release_range_keeps; [exact Hin1|]. rewrite (wsub1_pos t E). lia. }
    destruct (loop_gap ent pg a rs Hpa (N.lt_le_incl _ _ Hmax)
                (fun r Hr => Hgap r (or_intror Hr)) (fun r Hr => Hlrb r (or_intror Hr))
                (fst (gstep_res true p1 t t)) (f1 ++ snd (gstep_res true p1 t t)) (t + 1) Hin2)
      as [Hl|[Hk [Hm1 [Hm2 Hl]]]]; [lia | lia | apply Hlrb; now left | now left |].
    right. set (r2 := fold_left (gstep true) rs _) in *.
    apply (release_range_frees _ _ _ ent pg a); [exact Hk | lia | exact Hl | exact Hpa|].
    split; [exact Hm2 | exact Hamax].
Qed.

(** In terms of [needs]: if the allocating transaction is not later than the freeing one (as in every
    real state; 0 = unknown included), no reader needs the page, no reader id equals the freeing
    transaction id (the conservative case, see [conservative_tid_eq_reader]) and the entry is not
    skipped because of [t_lrb], then the page is released. *)
Corollary release_pending_gen_complete rs p p' freed ent pg a :
  release_pending_gen true rs p = (p', freed) ->
  In ent p -> In (pg, a) (t_ids (snd ent)) -> fst ent < MAXU64 -> a <= fst ent ->
  (forall r, In r rs -> needs r (fst ent) a = false /\ r <> fst ent) ->
  (forall r, In r rs -> t_lrb (snd ent) <> r + 1) ->
  In pg freed.
Proof.
  intros H Hin Hpa Hmax Hle Hn Hlrb.
  apply (release_pending_gen_gap_complete rs p p' freed ent pg a H Hin Hpa Hmax); [lia | | exact Hlrb].
  intros r Hr. destruct (Hn r Hr) as [Hnd Hne]. unfold needs in Hnd.
  apply andb_false_iff in Hnd. destruct Hnd as [Hnd|Hnd].
  - apply N.leb_gt in Hnd. left. lia.
  - apply N.ltb_ge in Hnd. right. lia.
Qed.
