(** First; Next* enumerates [flatten t] on trees without emptied leaves (every committed tree). *)
From Bbolt Require Import Base Spec Cursor CursorProofs.
From Coq Require Import ZifyNat ZifyBool.
Close Scope N_scope.
Open Scope nat_scope.

Notation elem := (bytes * N * bytes)%type.

(** ** list helpers *)
Lemma nth_error_split_fs {A} (l : list A) i x :
  nth_error l i = Some x -> l = firstn i l ++ x :: skipn (S i) l.
Proof.
  revert l. induction i as [|i IH]; intros [|y l] H; cbn in H; try discriminate.
  - injection H as ->. reflexivity.
  - cbn [firstn skipn app]. f_equal. apply IH. exact H.
Qed.

Lemma skipn_cons_nth {A} (l : list A) n x tl :
  skipn n l = x :: tl -> nth_error l n = Some x /\ skipn (S n) l = tl.
Proof.
  revert l. induction n as [|n IH]; intros [|y l] H; cbn in H; try discriminate.
  - injection H as -> ->. split; reflexivity.
  - apply IH in H. exact H.
Qed.

Lemma firstn_S_nth {A} (l : list A) n x :
  nth_error l n = Some x -> firstn (S n) l = firstn n l ++ [x].
Proof.
  revert l. induction n as [|n IH]; intros [|y l] H; cbn in H; try discriminate.
  - injection H as ->. reflexivity.
  - cbn [firstn app]. f_equal. apply IH. exact H.
Qed.

Lemma skipn_nil_len {A} (l : list A) n : skipn n l = [] -> length l <= n.
Proof.
  intros H. pose proof (skipn_length n l) as L. rewrite H in L. cbn in L. lia.
Qed.

(** ** trees without emptied leaves and without empty branches *)
Definition good (t : tree) : Prop :=
  has_empty_nonroot_leaf_aux false t = false /\ branches_nonempty t = true.

Lemma good_leaf es : good (Leaf es) -> es <> [].
Proof. intros [H _] ->. cbn in H. discriminate. Qed.

Lemma good_branch cs : good (Branch cs) -> cs <> [] /\ forall k c, In (k, c) cs -> good c.
Proof.
  intros [H1 H2]. cbn [has_empty_nonroot_leaf_aux branches_nonempty] in H1, H2.
  apply andb_true_iff in H2 as [H2 H3]. split.
  - intros ->. cbn in H2. discriminate.
  - intros k c Hin. split.
    + destruct (has_empty_nonroot_leaf_aux false c) eqn:E; [|reflexivity].
      assert (X : existsb (fun c => has_empty_nonroot_leaf_aux false (snd c)) cs = true).
      { apply existsb_exists. exists (k, c). split; [exact Hin|exact E]. }
      congruence.
    + rewrite forallb_forall in H3. apply (H3 (k, c) Hin).
Qed.

Lemma depth_pos t : 1 <= depth t.
Proof. destruct t; cbn; lia. Qed.

Lemma depth_child cs i k c : nth_error cs i = Some (k, c) -> S (depth c) <= depth (Branch cs).
Proof.
  cbn [depth]. revert i. induction cs as [|[k0 c0] cs IH]; intros [|i] H; cbn in H; try discriminate.
  - injection H as -> ->. cbn. lia.
  - apply IH in H. cbn [fold_right snd]. lia.
Qed.

(** ** the position invariant: [at_pos t st b e a] = the stack [st] (top first, root last) is a path in [t]
    to the leaf element [e], with [b] the elements before it and [a] those after it in [flatten t]. *)
Inductive at_pos : tree -> stack -> list elem -> elem -> list elem -> Prop :=
| AtLeaf es i e b a : nth_error es i = Some e -> b = firstn i es -> a = skipn (S i) es ->
    at_pos (Leaf es) [(Leaf es, Z.of_nat i)] b e a
| AtBranch cs i k c st b e a b' a' : nth_error cs i = Some (k, c) -> at_pos c st b e a ->
    b' = flatten (Branch (firstn i cs)) ++ b -> a' = a ++ flatten (Branch (skipn (S i) cs)) ->
    at_pos (Branch cs) (st ++ [(Branch cs, Z.of_nat i)]) b' e a'.

Lemma at_pos_flatten t st b e a : at_pos t st b e a -> flatten t = b ++ e :: a.
Proof.
  induction 1 as [es i e b a Hn -> ->|cs i k c st b e a b' a' Hn H IH -> ->].
  - cbn [flatten]. apply nth_error_split_fs. exact Hn.
  - cbn [flatten] in *. rewrite (nth_error_split_fs cs i _ Hn) at 1.
    rewrite flat_map_app. cbn [flat_map snd]. rewrite IH. rewrite <- !app_assoc. reflexivity.
Qed.

Lemma at_pos_top t st b e a : at_pos t st b e a ->
  exists es i tl, st = (Leaf es, Z.of_nat i) :: tl /\ nth_error es i = Some e.
Proof.
  induction 1 as [es i e b a Hn _ _|cs i k c st b e a b' a' Hn H IH _ _].
  - exists es, i, []. split; [reflexivity|exact Hn].
  - destruct IH as (es & j & tl & -> & Hj). exists es, j, (tl ++ [(Branch cs, Z.of_nat i)]). split; [reflexivity|exact Hj].
Qed.

(** ** goToFirstElementOnTheStack *)
Lemma go_first_good fuel : forall c rest, good c -> depth c <= fuel ->
  exists st e a, go_first fuel ((c, 0%Z) :: rest) = Ok (st ++ rest) /\ at_pos c st [] e a.
Proof.
  induction fuel as [|f IH]; intros c rest G D.
  - pose proof (depth_pos c). lia.
  - destruct c as [es|cs].
    + pose proof (good_leaf _ G) as Hne. destruct es as [|e es]; [congruence|].
      exists [(Leaf (e :: es), 0%Z)], e, es. split; [reflexivity|].
      apply (AtLeaf (e :: es) 0 e); reflexivity.
    + destruct (good_branch _ G) as [Hne Hc]. destruct cs as [|[k c0] cs]; [congruence|].
      assert (G0 : good c0) by (apply (Hc k); left; reflexivity).
      pose proof (depth_child ((k, c0) :: cs) 0 k c0 eq_refl) as D0.
      destruct (IH c0 ((Branch ((k, c0) :: cs), 0%Z) :: rest) G0 ltac:(lia)) as (st & e & a & E & P).
      exists (st ++ [(Branch ((k, c0) :: cs), 0%Z)]), e, (a ++ flatten (Branch cs)). split.
      * cbn [go_first is_leaf child]. cbn [Z.ltb Z.compare Z.to_nat nth_error option_map snd].
        rewrite E. rewrite <- app_assoc. reflexivity.
      * apply (AtBranch ((k, c0) :: cs) 0 k c0 st [] e a); [reflexivity|exact P|reflexivity|reflexivity].
Qed.

Lemma good_flatten_ne t : good t -> flatten t <> [].
Proof.
  intros G. destruct (go_first_good (depth t) t [] G (le_n _)) as (st & e & a & _ & P).
  apply at_pos_flatten in P. rewrite P. cbn. discriminate.
Qed.

(** ** next(): the loop that pops exhausted nodes *)
Lemma next_up_leaf_last es i rest : length es <= S i ->
  next_up ((Leaf es, Z.of_nat i) :: rest) = next_up rest.
Proof.
  intros L. cbn [next_up count].
  destruct (Z.ltb_spec (Z.of_nat i) (Z.of_nat (length es) - 1)) as [X|X]; [lia|reflexivity].
Qed.

Lemma next_up_branch_last cs i rest : length cs <= S i ->
  next_up ((Branch cs, Z.of_nat i) :: rest) = next_up rest.
Proof.
  intros L. cbn [next_up count].
  destruct (Z.ltb_spec (Z.of_nat i) (Z.of_nat (length cs) - 1)) as [X|X]; [lia|reflexivity].
Qed.

Lemma next_up_more t i rest : (Z.of_nat (S i) < count t)%Z ->
  next_up ((t, Z.of_nat i) :: rest) = Some ((t, Z.of_nat (S i)) :: rest).
Proof.
  intros L. cbn [next_up].
  destruct (Z.ltb_spec (Z.of_nat i) (count t - 1)) as [X|X]; [|lia].
  replace (Z.of_nat i + 1)%Z with (Z.of_nat (S i)) by lia. reflexivity.
Qed.

Lemma flat_map_good_nil (cs : list (bytes * tree)) :
  (forall k c, In (k, c) cs -> good c) -> flat_map (fun c => flatten (snd c)) cs = [] -> cs = [].
Proof.
  intros G H. destruct cs as [|[k c] cs]; [reflexivity|]. cbn [flat_map snd] in H.
  apply app_eq_nil in H as [H _]. exfalso. apply (good_flatten_ne c); [|exact H].
  apply (G k). left. reflexivity.
Qed.

Lemma In_skipn_in {A} (l : list A) n x : In x (skipn n l) -> In x l.
Proof.
  revert l. induction n as [|n IH]; intros [|y l] H; cbn in H; auto. right. apply IH. exact H.
Qed.

Lemma next_up_end t st b e : at_pos t st b e [] -> good t ->
  forall rest, next_up (st ++ rest) = next_up rest.
Proof.
  intros H. remember (@nil elem) as A eqn:EA.
  induction H as [es i e b a Hn _ ->|cs i k c st b e a b' a' Hn H IH _ ->]; intros G rest.
  - cbn [app]. apply next_up_leaf_last. apply skipn_nil_len. exact EA.
  - apply app_eq_nil in EA as [EA1 EA2]. destruct (good_branch _ G) as [_ Gc].
    rewrite <- app_assoc. cbn [app]. rewrite (IH EA1 (Gc k c (nth_error_In _ _ Hn))).
    apply next_up_branch_last. apply skipn_nil_len. cbn [flatten] in EA2.
    apply flat_map_good_nil in EA2; [exact EA2|].
    intros k' c' Hin. apply (Gc k'). eapply In_skipn_in. exact Hin.
Qed.

Lemma next_step t st b e A : at_pos t st b e A -> forall e' a', A = e' :: a' -> good t ->
  forall fuel rest, depth t <= fuel ->
  exists st1 st2, next_up (st ++ rest) = Some st1 /\ go_first fuel st1 = Ok (st2 ++ rest) /\
                  at_pos t st2 (b ++ [e]) e' a'.
Proof.
  induction 1 as [es i e b a Hn -> ->|cs i k c st b e a b' a' Hn H IH -> ->];
    intros e' a2 EA G fuel rest D.
  - apply skipn_cons_nth in EA as [Hn' Hs].
    exists ((Leaf es, Z.of_nat (S i)) :: rest), [(Leaf es, Z.of_nat (S i))]. cbn [app]. split; [|split].
    + apply next_up_more. cbn [count]. assert (S i < length es) by (apply nth_error_Some; rewrite Hn'; discriminate). lia.
    + destruct fuel as [|f]; [pose proof (depth_pos (Leaf es)); lia|]. reflexivity.
    + apply AtLeaf; [exact Hn'| |symmetry; exact Hs]. symmetry. apply firstn_S_nth. exact Hn.
  - destruct (good_branch _ G) as [_ Gc]. pose proof (Gc k c (nth_error_In _ _ Hn)) as G0.
    pose proof (depth_child _ _ _ _ Hn) as D0.
    destruct a as [|e1 a1].
    + (* the child is exhausted: move to the next child and descend *)
      cbn [app] in EA. cbn [flatten] in EA.
      destruct (skipn (S i) cs) as [|[k1 c1] tl] eqn:Es; [cbn in EA; discriminate|].
      apply skipn_cons_nth in Es as [Hn1 Es].
      pose proof (Gc k1 c1 (nth_error_In _ _ Hn1)) as G1.
      pose proof (depth_child _ _ _ _ Hn1) as D1.
      destruct fuel as [|f]; [lia|].
      destruct (go_first_good f c1 ((Branch cs, Z.of_nat (S i)) :: rest) G1 ltac:(lia)) as (st2 & e2 & a3 & E & P).
      exists ((Branch cs, Z.of_nat (S i)) :: rest), (st2 ++ [(Branch cs, Z.of_nat (S i))]). split; [|split].
      * rewrite <- app_assoc. cbn [app]. rewrite (next_up_end _ _ _ _ H G0).
        apply next_up_more. cbn [count]. assert (S i < length cs) by (apply nth_error_Some; rewrite Hn1; discriminate). lia.
      * cbn [go_first is_leaf child].
        destruct (Z.ltb_spec (Z.of_nat (S i)) 0) as [X|_]; [lia|]. rewrite Nat2Z.id, Hn1. cbn [option_map snd].
        rewrite E. rewrite <- app_assoc. reflexivity.
      * pose proof (at_pos_flatten _ _ _ _ _ P) as F1. pose proof (at_pos_flatten _ _ _ _ _ H) as F0.
        cbn [flat_map snd] in EA. rewrite F1 in EA. cbn [app] in EA. injection EA as <- <-.
        eapply AtBranch; [exact Hn1|exact P| |rewrite Es; reflexivity].
        rewrite app_nil_r. cbn [flatten]. rewrite (firstn_S_nth _ _ _ Hn). rewrite flat_map_app.
        cbn [flat_map snd]. rewrite app_nil_r, F0, <- app_assoc. reflexivity.
    + cbn [app] in EA. injection EA as <- <-.
      destruct (IH e1 a1 eq_refl G0 fuel ((Branch cs, Z.of_nat i) :: rest) ltac:(lia)) as (st1 & st2 & N1 & E & P).
      exists st1, (st2 ++ [(Branch cs, Z.of_nat i)]). split; [|split].
      * rewrite <- app_assoc. exact N1.
      * rewrite E, <- app_assoc. reflexivity.
      * eapply AtBranch; [exact Hn|exact P| |reflexivity]. rewrite app_assoc. reflexivity.
Qed.

(** ** keyValue at a valid position *)
Lemma key_value_top es i tl k fl v : nth_error es i = Some (k, fl, v) ->
  (count (Leaf es) =? 0)%Z = false /\ key_value ((Leaf es, Z.of_nat i) :: tl) = Ok (Some (k, v, fl)).
Proof.
  intros Hn. assert (L : i < length es) by (apply nth_error_Some; rewrite Hn; discriminate).
  cbn [key_value count leaf_elem].
  destruct (Z.eqb_spec (Z.of_nat (length es)) 0) as [X|_]; [lia|]. split; [reflexivity|].
  destruct (Z.geb_spec (Z.of_nat i) (Z.of_nat (length es))) as [X|_]; [lia|]. cbn [orb].
  destruct (Z.ltb_spec (Z.of_nat i) 0) as [X|_]; [lia|]. rewrite Nat2Z.id, Hn. reflexivity.
Qed.

(** ** single calls *)
Lemma next_at_end t st b e fuel : at_pos t st b e [] -> good t -> 1 <= fuel ->
  next_ fuel st = Ok (st, None).
Proof.
  intros P G F. destruct fuel as [|f]; [lia|]. cbn [next_].
  pose proof (next_up_end _ _ _ _ P G []) as E. rewrite app_nil_r in E. rewrite E. reflexivity.
Qed.

Lemma next_inside t st b e e' a' fuel : at_pos t st b e (e' :: a') -> good t -> depth t <= fuel ->
  exists st2, next_ fuel st = Ok (st2, Some (fst (fst e'), snd e', snd (fst e'))) /\ at_pos t st2 (b ++ [e]) e' a'.
Proof.
  intros P G F. destruct fuel as [|f]; [pose proof (depth_pos t); lia|].
  destruct (next_step _ _ _ _ _ P e' a' eq_refl G (S f) [] F) as (st1 & st2 & N1 & E & P2).
  rewrite app_nil_r in N1, E. exists st2. split; [|exact P2].
  cbn [next_]. rewrite N1, E. cbn [bindr].
  destruct (at_pos_top _ _ _ _ _ P2) as (es & i & tl & -> & Hn). destruct e' as [[k fl] v].
  destruct (key_value_top es i tl k fl v Hn) as [C K]. rewrite C, K. reflexivity.
Qed.

Lemma first_good t fuel : good t -> depth t <= fuel ->
  exists st e a, first_ fuel t = Ok (st, Some (fst (fst e), snd e, snd (fst e))) /\ at_pos t st [] e a.
Proof.
  intros G F. destruct (go_first_good fuel t [] G F) as (st & e & a & E & P).
  rewrite app_nil_r in E. exists st, e, a. split; [|exact P].
  unfold first_. rewrite E. cbn [bindr].
  destruct (at_pos_top _ _ _ _ _ P) as (es & i & tl & -> & Hn). destruct e as [[k fl] v].
  destruct (key_value_top es i tl k fl v Hn) as [C K]. rewrite C, K. reflexivity.
Qed.

Lemma api_kv_show (e : elem) : api_kv (Some (fst (fst e), snd e, snd (fst e))) = show (Some e).
Proof. destruct e as [[k fl] v]. reflexivity. Qed.

(** ** runs *)
Lemma api_run_cons fixed fuel root st c r :
  api_run fixed fuel root st (c :: r) =
  (let? x := api_call fixed fuel root st c in
   let? rest := api_run fixed fuel root (fst x) r in Ok (snd x :: rest)).
Proof. reflexivity. Qed.

Lemma repeat_S {A} (x : A) n : repeat x (S n) = x :: repeat x n.
Proof. reflexivity. Qed.

Lemma next_run t fuel fixed : good t -> depth t <= fuel -> forall a st b e, at_pos t st b e a ->
  api_run fixed fuel t st (repeat CNext (S (length a))) =
  Ok (map (fun x => show (Some x)) a ++ [(None, None)]).
Proof.
  intros G F. induction a as [|e' a IH]; intros st b e P.
  - cbn [length repeat api_run map app]. unfold api_call.
    rewrite (next_at_end _ _ _ _ fuel P G) by (pose proof (depth_pos t); lia). reflexivity.
  - cbn [length]. destruct (next_inside _ _ _ _ _ _ fuel P G F) as (st2 & E & P2).
    rewrite repeat_S, api_run_cons. unfold api_call. rewrite E. cbn [bindr fst snd]. rewrite (IH _ _ _ P2). cbn [bindr].
    rewrite api_kv_show. reflexivity.
Qed.

Lemma depth_le_nodes_list (cs : list (bytes * tree)) :
  Forall (fun c => depth (snd c) <= nodes (snd c)) cs ->
  fold_right (fun c a => Nat.max (depth (snd c)) a) 0 cs <= fold_right (fun c a => nodes (snd c) + a) 0 cs.
Proof. induction 1 as [|c cs H _ IH]; cbn [fold_right]; lia. Qed.

Fixpoint depth_le_nodes (t : tree) : depth t <= nodes t.
Proof.
  destruct t as [es|cs]; [cbn; lia|].
  cbn [depth nodes]. apply le_n_S. apply depth_le_nodes_list.
  induction cs as [|[k c] cs IH]; constructor; [apply depth_le_nodes|exact IH].
Qed.

Lemma depth_le_fuel_for t : depth t <= fuel_for t.
Proof. unfold fuel_for. pose proof (depth_le_nodes t). lia. Qed.

(** First then Next* on a tree whose leaves are all non-empty and whose branches all have children *)
Theorem first_next_enumerates_good t fuel fixed : good t -> depth t <= fuel ->
  api_run fixed fuel t [] (CFirst :: repeat CNext (length (flatten t))) =
  Ok (map (fun e => show (Some e)) (flatten t) ++ [(None, None)]).
Proof.
  intros G F. destruct (first_good t fuel G F) as (st & e & a & E & P).
  pose proof (at_pos_flatten _ _ _ _ _ P) as Fl. cbn [app] in Fl. rewrite Fl.
  change (length (e :: a)) with (S (length a)).
  rewrite api_run_cons. unfold api_call. rewrite E. cbn [bindr fst snd]. rewrite (next_run t fuel fixed G F _ _ _ _ P). cbn [bindr].
  rewrite api_kv_show. reflexivity.
Qed.

(** the hypotheses of the task statement give [good] *)
Lemma good_of_hyps t : has_empty_leaf t = false -> branches_nonempty t = true -> flatten t <> [] -> good t.
Proof.
  intros H B Fne. split; [|exact B]. destruct t as [es|cs].
  - cbn. destruct es; [cbn in Fne; congruence|reflexivity].
  - exact H.
Qed.

(** [wf] already forces every branch to be non-empty *)
Lemma wfb_go_forall (P : tree -> bool) hi :
  forall (cs : list (bytes * tree)),
  Forall (fun c => forall lo hi, wfb (snd c) lo hi = true -> P (snd c) = true) cs ->
  forall first lo,
  (fix go (first : bool) (cs : list (bytes * tree)) : bool :=
     match cs with
     | [] => true
     | (k, c) :: r =>
         wfb c (if first then lo else Some k) (match r with [] => hi | (k', _) :: _ => Some k' end)
         && go false r
     end) first cs = true -> forallb (fun c => P (snd c)) cs = true.
Proof.
  induction 1 as [|[k c] cs H _ IH]; intros first lo W; [reflexivity|].
  apply andb_true_iff in W as [W1 W2]. cbn [forallb snd]. apply andb_true_iff. split.
  - eapply H. exact W1.
  - eapply IH. exact W2.
Qed.

Fixpoint wfb_branches_nonempty (t : tree) : forall lo hi, wfb t lo hi = true -> branches_nonempty t = true.
Proof.
  destruct t as [es|cs]; intros lo hi W; [reflexivity|].
  cbn [wfb] in W. apply andb_true_iff in W as [W W4]. apply andb_true_iff in W as [W W3].
  apply andb_true_iff in W as [W1 W2]. cbn [branches_nonempty]. apply andb_true_iff. split; [exact W1|].
  eapply wfb_go_forall; [|exact W4].
  clear -wfb_branches_nonempty. induction cs as [|[k c] cs IH]; constructor; [|exact IH].
  cbn [snd]. apply wfb_branches_nonempty.
Qed.

Lemma wf_branches_nonempty t : wf t = true -> branches_nonempty t = true.
Proof. apply wfb_branches_nonempty. Qed.

(** * main results *)
(** the statement as given *)
Theorem first_next_enumerates : forall t, wf t = true -> has_empty_leaf t = false -> branches_nonempty t = true ->
  flatten t <> [] ->
  api_run true (fuel_for t) t [] (CFirst :: repeat CNext (length (flatten t))) =
  Ok (map (fun e => show (Some e)) (flatten t) ++ [(None, None)]).
Proof.
  intros t _ H B Fne. apply first_next_enumerates_good; [apply good_of_hyps; assumption|apply depth_le_fuel_for].
Qed.

(** [branches_nonempty] follows from [wf] *)
Theorem first_next_enumerates_wf : forall t, wf t = true -> has_empty_leaf t = false -> flatten t <> [] ->
  api_run true (fuel_for t) t [] (CFirst :: repeat CNext (length (flatten t))) =
  Ok (map (fun e => show (Some e)) (flatten t) ++ [(None, None)]).
Proof.
  intros t W H Fne. apply first_next_enumerates; auto. apply wf_branches_nonempty. exact W.
Qed.

(** key order plays no role in forward enumeration: [wf] is not needed, any fuel >= depth will do,
    and the pinned ([fixed = false]) and repaired code agree (First/Next were not changed) *)
Theorem first_next_enumerates_shape : forall fixed fuel t,
  has_empty_leaf t = false -> branches_nonempty t = true -> flatten t <> [] -> depth t <= fuel ->
  api_run fixed fuel t [] (CFirst :: repeat CNext (length (flatten t))) =
  Ok (map (fun e => show (Some e)) (flatten t) ++ [(None, None)]).
Proof.
  intros fixed fuel t H B Fne F. apply first_next_enumerates_good; [apply good_of_hyps; assumption|exact F].
Qed.

(** agreement with the list specification on these call sequences *)
Corollary first_next_refines_list : forall t cs, wf t = true -> has_empty_leaf t = false -> flatten t <> [] ->
  cs = CFirst :: repeat CNext (length (flatten t)) ->
  api_run true (fuel_for t) t [] cs = Ok (list_run (flatten t) Unset cs).
Proof.
  intros t cs W H Fne ->. rewrite first_next_enumerates_wf by assumption.
  rewrite list_first_next_enumerates by assumption. reflexivity.
Qed.

Print Assumptions first_next_enumerates.
Print Assumptions first_next_enumerates_wf.
Print Assumptions first_next_enumerates_shape.
Print Assumptions first_next_refines_list.
