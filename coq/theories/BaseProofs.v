(** Lemmas about Base.v *)
From Bbolt Require Import Base.
From Coq Require Import Sorting.Permutation Sorting.Sorted Sorting.Mergesort.

Lemma sortN_perm l : Permutation l (sortN l).
Proof. apply NSort.Permuted_sort. Qed.

Lemma mergeN_perm a b : Permutation (a ++ b) (mergeN a b).
Proof. apply NSort.Permuted_merge. Qed.

Lemma sortN_length l : length (sortN l) = length l.
Proof. symmetry. apply Permutation_length, sortN_perm. Qed.

Lemma mergeN_length a b : length (mergeN a b) = (length a + length b)%nat.
Proof. rewrite <- (Permutation_length (mergeN_perm a b)). apply app_length. Qed.

Lemma sortN_in x l : In x (sortN l) <-> In x l.
Proof. split; apply Permutation_in; [symmetry|]; apply sortN_perm. Qed.

Lemma mergeN_in x a b : In x (mergeN a b) <-> In x a \/ In x b.
Proof.
  rewrite <- in_app_iff. split; apply Permutation_in; [symmetry|]; apply mergeN_perm.
Qed.

Lemma memN_in x l : memN x l = true <-> In x l.
Proof.
  unfold memN. rewrite existsb_exists. split.
  - intros [y [Hy E]]. apply N.eqb_eq in E. subst. exact Hy.
  - intros H. exists x. split; [exact H | apply N.eqb_refl].
Qed.

Lemma memN_false x l : memN x l = false <-> ~ In x l.
Proof. rewrite <- memN_in. destruct (memN x l); split; congruence. Qed.

Lemma run_nat_in x p n : In x (run_nat p n) <-> p <= x < p + N.of_nat n.
Proof.
  revert p. induction n as [|n IH]; intros p; simpl run_nat.
  - simpl. lia.
  - simpl In. rewrite IH. lia.
Qed.

Lemma run_in x p n : In x (run p n) <-> p <= x < p + n.
Proof. unfold run. rewrite run_nat_in, N2Nat.id. reflexivity. Qed.

Lemma run_nat_length p n : length (run_nat p n) = n.
Proof. revert p; induction n as [|n IH]; intros p; simpl; [reflexivity | now rewrite IH]. Qed.

Lemma run_length p n : length (run p n) = N.to_nat n.
Proof. apply run_nat_length. Qed.

Lemma sortN_sorted l : Sorted (fun x y => is_true (x <=? y)) (sortN l).
Proof. apply NSort.Sorted_sort. Qed.
