(** Extraction of the runnable definitions (ExtrOcamlBasic only; N/Z/positive/nat stay inductive). *)
From Bbolt Require Import Base Freelist Spec Layout Cursor Pager Compact Grow Batch Lock Conc Node Check Tree.
Require Import ExtrOcamlBasic.
Extraction Blacklist List String.
Separate Extraction
  BinNat.N.div_eucl BinNat.N.add BinNat.N.mul Base.sortN Base.mergeN Base.run
  Freelist.step Freelist.fl_empty Freelist.cache Freelist.copyall Freelist.write_img Freelist.read_ids
  Freelist.free_count Freelist.pending_count Freelist.count Freelist.estimated_write_size
  Freelist.alloc_ok Freelist.free_ok Freelist.release_ok Freelist.rollback_ok Freelist.serial_ok
  Freelist.pend_pairs Freelist.release_pending_gen
  Spec.exec Spec.resolve Spec.key_n Spec.listing Spec.keys_sorted
  Layout.dec_db Layout.dec_with_meta Layout.accounted Layout.page_ids Layout.nodupb Layout.freelist_ids Layout.validate_at Layout.choose_meta
  Cursor.api_call Cursor.list_call Cursor.flatten Cursor.nodes Cursor.depth Cursor.has_empty_leaf Cursor.api_run Cursor.list_run Cursor.wf Cursor.fuel_for
  Layout.open_model Layout.meta_valid Layout.rd_meta
  Compact.compact Compact.wf_ents
  Grow.alloc_refused Grow.grow Grow.grow_nosync Grow.mmap_size
  Lock.lstep Lock.lrun
  Conc.crun Conc.cinit Conc.serial_ok Conc.rec_ok Conc.ver_of
  Batch.run_batch Batch.bstate0 Batch.res_get Batch.committed_of Batch.cnt_get
  Node.put Node.del Node.size Node.size_less_than Node.split_index Node.split Node.write Node.read Node.split_ok Node.keys_sorted Node.keys_of Node.big_enough Node.pages_needed Node.bucket_write Node.bucket_header_value
  Tree.commit_tree Tree.commit_bucket Tree.commit_parent Tree.commit_parent_bucket Tree.flatten Tree.depth Tree.no_empty Tree.page_runs
  Layout.dec_page Check.check_file Check.cli_exit
  Pager.pstep Pager.pg_open Pager.scan_free Pager.commit_writes Pager.pend_pages Pager.minus Pager.e_tx Pager.e_pg.
